package main

import (
	"encoding/json"
	"fmt"
	"os"
	"path/filepath"
	"strings"
)

// cmdReplay re-generates and re-discharges the obligation named in a replay file against the current tree.
// Exit 1 (with the clause, position and solver output) if it still fails, 0 if it is discharged now.
// No obligation of this verifier carries a concrete Go input: the replay is the failed proof obligation itself.
func cmdReplay(args []string) int {
	if len(args) != 1 {
		fmt.Fprintln(os.Stderr, "usage: evyvc replay <replay.json>")
		return 2
	}
	b, err := os.ReadFile(args[0])
	if err != nil {
		fmt.Fprintln(os.Stderr, err)
		return 2
	}
	var m map[string]any
	if err := json.Unmarshal(b, &m); err != nil {
		fmt.Fprintln(os.Stderr, err)
		return 2
	}
	prop, _ := m["property"].(string)
	name, _ := m["failed_obligation"].(string)
	fmt.Printf("replay of %s for %s\n  clause: %v\n  recorded status: %v\n  recorded reason: %v\n", name, prop, m["clause"], m["status"], m["reason"])
	i := strings.Index(name, "/")
	if i < 0 {
		fmt.Println("  (not an obligation of a function: nothing to re-discharge)")
		return 1
	}
	fn := name[:i]
	p, err := loadAll(prop)
	if err != nil {
		fmt.Println("  the tree no longer loads:", err)
		return 1
	}
	c := p.specs.Funcs[fn]
	if c == nil {
		fmt.Println("  no contract for", fn, "in the current tree")
		return 1
	}
	r := verifyFunc(p, c, "")
	if r.Err != "" {
		fmt.Println("  the function can no longer be translated:", r.Err)
		return 1
	}
	var obls []*Obligation
	for _, o := range r.Obls {
		if o.Name == name {
			obls = append(obls, o)
		}
	}
	if len(obls) == 0 {
		fmt.Println("  the obligation is no longer generated")
		return 1
	}
	discharge(obls, filepath.Join(outDir(), "work", "replay"), "quick", 8)
	for _, a := range aggregate(obls) {
		if !a.ok() {
			fmt.Printf("  STILL FAILS: %s status=%s (%d path instances)\n  %s\n", a.Name, a.Status, a.N, a.Text)
			for _, o := range a.Inst {
				if o.Status != "unsat" {
					fmt.Printf("  path %d: %s\n", o.Path, o.Output)
					if o.Model != "" {
						fmt.Println(o.Model)
					}
					break
				}
			}
			return 1
		}
	}
	fmt.Println("  discharged on the current tree")
	return 0
}
