package main

import (
	"fmt"
	"go/types"
	"strings"

	"golang.org/x/tools/go/ssa"
)

// FuncResult summarises the verification of one function.
type FuncResult struct {
	Key         string
	Ints        string
	Paths       int
	Obls        []*Obligation
	Err         string // tool limit / untranslatable
	Assumptions []string
	Returns     int
}

func newExec(p *Program, fn *ssa.Function, c *Contract, prop string) *Exec {
	x := &Exec{prog: p, fn: fn, c: c, prop: prop, decls: newDecls(), strLits: map[string]Term{}, classes: map[string]classInfo{}, closures: map[string]Clo{}, own: map[string]string{}, stores: map[string]storeInfo{}, freshRefs: map[string]bool{}, boundOf: map[string]int{}, alts: map[string][]Term{}, recFuncs: map[string]*recFunc{}, loops: map[*ssa.Function]*loopInfo{}, ordinals: map[string]int{}, assumptions: map[string]bool{}, maxPaths: 4096}
	x.bv = c.Ints == "bv64"
	return x
}

// verifyFunc generates all obligations of one function under contract.
func verifyFunc(p *Program, c *Contract, prop string) (res *FuncResult) {
	res = &FuncResult{Key: c.Key, Ints: c.Ints}
	fn := p.findFunc(c.Key)
	if fn == nil {
		res.Err = "function not found in the loaded code: " + c.Key
		return
	}
	if fn.Blocks == nil {
		res.Err = "function has no body: " + c.Key
		return
	}
	x := newExec(p, fn, c, prop)
	x.noMerge = c.Opts["merge"] == ""
	defer func() {
		if r := recover(); r != nil {
			if u, ok := r.(unsupported); ok {
				res.Err = "untranslatable: " + u.msg
				res.Obls = nil
				return
			}
			panic(r)
		}
	}()
	// check that the contract header matches the code's signature shape
	np := len(fn.Params)
	want := len(c.Params)
	if c.Recv != "" {
		want++
	}
	if np != want {
		res.Err = fmt.Sprintf("contract header has %d parameters, code has %d", want, np)
		return
	}
	if len(c.Results) != 0 && len(c.Results) != fn.Signature.Results().Len() {
		res.Err = fmt.Sprintf("contract header has %d results, code has %d", len(c.Results), fn.Signature.Results().Len())
		return
	}
	st := &State{heap: map[string]Term{}, invSeen: map[string]bool{}, inside: map[string]string{}}
	st.alloc = x.fresh("alloc0", sInt)
	st.assume(app(sBool, "<", intLit(0), st.alloc))
	fr := &Frame{fn: fn, vals: map[ssa.Value]Val{}, regs: map[*ssa.Alloc]Val{}, iters: map[*ssa.Range]Term{}, loopIn: map[int]bool{}}
	x.params = map[string]Val{}
	names := c.Params
	if c.Recv != "" {
		names = append([]string{c.Recv}, c.Params...)
	}
	for i, prm := range fn.Params {
		v := x.freshVal(st, prm.Name(), prm.Type())
		fr.vals[prm] = v
		x.params[names[i]] = v
	}
	for _, fv := range fn.FreeVars {
		fr.vals[fv] = x.freshVal(st, "fv."+fv.Name(), fv.Type())
		x.params[fv.Name()] = fr.vals[fv]
	}
	// implicit precondition: pointer receiver is non-nil
	if c.Recv != "" && c.Opts["nilrecv"] == "" {
		if _, ok := fn.Params[0].Type().Underlying().(*types.Pointer); ok {
			st.assume(x.nonNil(fr.vals[fn.Params[0]]))
		}
	}
	// global invariants of the package
	gev := &specEnv{x: x, st: st, vars: map[string]Val{}, c: c}
	ctext := contractText(c)
	for _, g := range p.specs.Globals[c.Pkg] {
		if !globalRelevant(p, g, ctext) {
			continue
		}
		func() {
			defer func() {
				if r := recover(); r != nil {
					if u, ok := r.(unsupported); ok && x.bv {
						x.note("bv64 mode: global invariant not expressible, skipped: " + u.msg)
						st.inQuant = 0
						return
					}
					panic(r)
				}
			}()
			st.assume(gev.evalBool(g))
		}()
	}
	ev := &specEnv{x: x, st: st, vars: x.params, c: c}
	x.bindLets(ev, c)
	for _, rq := range c.Requires {
		st.assume(ev.evalBool(rq.Text))
	}
	st.markBoundary()
	x.entry = st.clone()
	x.entry.noSide = true
	x.entryFr = fr
	// vacuity guard: the preconditions must be satisfiable
	x.obligeX(st, "cover", "cover-requires", allProps(c, prop), tTrue, "preconditions and type invariants are satisfiable", "", false, true)

	x.runBlock(fr, st, fn.Blocks[0], nil, func(st *State, fr *Frame, rv []Val) {
		x.atReturn(fr, st, rv)
	})
	if x.paths > x.maxPaths {
		res.Err = fmt.Sprintf("tool limit: %d paths", x.paths)
		return
	}
	x.finalize()
	res.Obls = x.obls
	res.Paths = x.paths
	res.Returns = x.retCount
	res.Assumptions = sortedStrings(x.assumptions)
	return
}

func allProps(c *Contract, prop string) []string {
	if prop != "" {
		return []string{prop}
	}
	return c.Props
}

func (x *Exec) atReturn(fr *Frame, st *State, rv []Val) {
	x.paths++
	x.retCount++
	if x.paths > x.maxPaths {
		fail("tool limit: more than %d paths", x.maxPaths)
	}
	c := x.c
	x.checkTypeInvs(fr, st, "at return")
	env := map[string]Val{}
	for k, v := range x.params {
		env[k] = v
	}
	if len(c.Results) == len(rv) {
		for i, n := range c.Results {
			env[n] = rv[i]
		}
	}
	ev := &specEnv{x: x, st: st, old: x.entry, vars: env, c: c}
	x.bindLets(ev, c)
	for _, en := range c.Ensures {
		props := en.Props
		if len(props) == 0 {
			props = x.safetyProps()
		}
		if strings.HasPrefix(en.Label, "assumed-") {
			// used by callers, not proved on this body: listed among the assumptions of every evidence file
			x.note("assumed postcondition of " + c.Key + " (not proved on its body): " + en.Text)
			continue
		}
		n := parseSpecExpr(en.Text)
		if n.op == "<==>" && !en.MustFail {
			// one obligation per direction: much cheaper for the solvers
			a := ev.eval(n.l).(Sc).T
			b := ev.eval(n.r).(Sc).T
			x.obligeX(st, "ensures", en.Name()+"-fwd", props, mkImplies(a, b), en.Text+"   [==> direction]", "", false, false)
			x.obligeX(st, "ensures", en.Name()+"-bwd", props, mkImplies(b, a), en.Text+"   [<== direction]", "", false, false)
			continue
		}
		t := ev.evalBool(en.Text)
		if parts := topConjuncts(t); len(parts) > 1 && !en.MustFail {
			for i, pt := range parts {
				x.obligeX(st, "ensures", fmt.Sprintf("%s.%d", en.Name(), i+1), props, pt, fmt.Sprintf("%s   [conjunct %d]", en.Text, i+1), "", false, false)
			}
		} else {
			x.obligeX(st, "ensures", en.Name(), props, t, en.Text, "", en.MustFail, false)
		}
		if en.Label != "" && strings.HasPrefix(en.Label, "lemma") {
			// a proved lemma may be used by the clauses after it
			st.pc = append(st.pc, t)
		}
	}
	if c.ModSet {
		x.frameCheckAgainst(st, x.entry, c.Modifies, ev.withState(x.entry), "frame", c.Props)
	}
	x.checkPropagation(st, rv, false)
	// cover: this return is reachable (used for vacuity reporting only)
	if x.retCount <= 12 {
		x.obligeX(st, "cover", fmt.Sprintf("cover-return#%d", x.retCount), allProps(c, x.prop), tTrue, "return path reachable: "+strings.Join(st.trace, " "), "", false, true)
	}
}

// frameCheck proves that every heap class touched on this path, other than the declared modifies,
// agrees with its entry value on all references allocated before the call.
func (x *Exec) frameCheckAgainst(st *State, snap *State, items []string, oev *specEnv, namePfx string, props []string) {
	// evaluate declared locations in the entry state
	type loc struct {
		prefix string
		idx    []Term
		whole  bool // class-level
	}
	var locs []loc
	everything := false
	var allbut []string
	isAllbut := false
	for _, it := range items {
		switch {
		case it == "everything":
			everything = true
		case strings.HasPrefix(it, "allbut "):
			isAllbut = true
			allbut = append(allbut, x.frameSet(strings.TrimSpace(strings.TrimPrefix(it, "allbut ")), x.c)...)
		case strings.HasPrefix(it, "class "):
			locs = append(locs, loc{prefix: strings.TrimSpace(it[6:]), whole: true})
		case strings.HasPrefix(it, "owned "):
			for _, cl := range x.ownedClasses(strings.TrimSpace(it[6:]), x.c) {
				locs = append(locs, loc{prefix: cl, whole: true})
			}
		case strings.HasSuffix(it, "[*]"):
			base := oev.eval(parseSpecExpr(strings.TrimSuffix(it, "[*]")))
			switch b := base.(type) {
			case Sl:
				et := b.GT.Underlying().(*types.Slice).Elem()
				locs = append(locs, loc{prefix: x.elemPrefix(b.Base, et), idx: []Term{b.Base}})
			case Sc:
				mt := b.GT.Underlying().(*types.Map)
				d, v, s := x.mapClassesOf(b.T, mt)
				for _, cl := range []string{d, v, s} {
					locs = append(locs, loc{prefix: cl, idx: []Term{b.T}})
				}
			}
		default:
			p := oev.evalLoc(parseSpecExpr(it))
			locs = append(locs, loc{prefix: p.Prefix, idx: p.Idx})
		}
	}
	if everything {
		return
	}
	n := 0
	for _, class := range sortedKeys(st.heap) {
		cur := st.heap[class]
		entryT, ok := snap.heap[class]
		if !ok {
			// class first touched after the snapshot: its snapshot version is the epoch version
			entryT = x.classTermSort(snap, class, cur.Sort)
		}
		if cur.S == entryT.S {
			continue
		}
		var except []Term
		whole := false
		if isAllbut {
			whole = true
			for _, pfx := range allbut {
				if classMatches(class, pfx) {
					whole = false
				}
			}
		}
		for _, l := range locs {
			if !classMatches(class, l.prefix) {
				continue
			}
			if l.whole {
				whole = true
				break
			}
			except = append(except, l.idx[0])
		}
		if whole {
			continue
		}
		n++
		var g Term
		if strings.HasPrefix(class, "global:") {
			g = mkEq(cur, entryT)
		} else {
			conds := []string{"(< 0 r)", fmt.Sprintf("(< r %s)", snap.alloc.S)}
			for _, e := range except {
				conds = append(conds, fmt.Sprintf("(not (= r %s))", e.S))
			}
			g = Term{fmt.Sprintf("(forall ((r Int)) (=> (and %s) (= (select %s r) (select %s r))))", strings.Join(conds, " "), cur.S, entryT.S), sBool}
		}
		x.oblige(st, "frame", namePfx+"#"+class, props, g, "nothing outside the modifies clause changes: "+class, "")
	}
}

func (x *Exec) evalTypeInv(st *State, inv *TypeInv, p Ptr) Term {
	ev := &specEnv{x: x, st: st, vars: map[string]Val{"self": p}, pkg: x.prog.typesPkg(inv.Pkg)}
	return ev.evalBool(inv.Text)
}

func (x *Exec) globalStore(fr *Frame, st *State, ins *ssa.Store, p Ptr) {
	for _, it := range x.c.Modifies {
		if it == "everything" || strings.HasPrefix(p.Prefix, "global:") && strings.Contains(it, strings.TrimPrefix(p.Prefix, "global:")[strings.Index(strings.TrimPrefix(p.Prefix, "global:"), ".")+1:]) {
			return
		}
	}
	if x.c.ModSet {
		return // the frame check reports it
	}
	x.note("store to package-level variable " + p.Prefix + " (global invariants are assumed preserved)")
}

// topConjuncts splits "(and a b c)" into its arguments (nested ands flattened one level).
func topConjuncts(t Term) []Term {
	if strings.HasPrefix(t.S, "(=> ") && balanced(t.S) {
		// (=> P (and A B)) splits into (=> P A), (=> P B)
		body := t.S[4 : len(t.S)-1]
		n := sortEnd(body)
		if n < len(body) {
			p := body[:n]
			q := strings.TrimSpace(body[n:])
			if strings.HasPrefix(q, "(and ") && balanced(q) && balanced(p) {
				var out []Term
				for _, c := range topConjuncts(Term{q, sBool}) {
					out = append(out, Term{"(=> " + p + " " + c.S + ")", sBool})
				}
				return out
			}
		}
		return []Term{t}
	}
	if !strings.HasPrefix(t.S, "(and ") {
		return []Term{t}
	}
	body := t.S[5 : len(t.S)-1]
	var out []Term
	d := 0
	inq := false
	start := 0
	flush := func(end int) {
		p := strings.TrimSpace(body[start:end])
		if p != "" {
			out = append(out, topConjuncts(Term{p, sBool})...)
		}
	}
	for i := 0; i < len(body); i++ {
		c := body[i]
		if c == '|' {
			inq = !inq
		}
		if inq {
			continue
		}
		switch c {
		case '(':
			d++
		case ')':
			d--
		case ' ':
			if d == 0 {
				flush(i)
				start = i + 1
			}
		}
	}
	flush(len(body))
	return out
}

// Error propagation (`propagates f g ...`) is a ghost state machine: $pending holds the first non-nil
// error a propagating callee returned and that has not been returned yet. No contracted call may be made
// while an error is pending, and a return must hand back the pending error (as is or wrapped in *Error).
func (x *Exec) checkPropagation(st *State, rv []Val, backEdge bool) {
	c := x.c
	if len(c.Propagates) == 0 || backEdge {
		return
	}
	pend := st.pending
	if pend.S == "" || pend.S == "inil" {
		return
	}
	if len(rv) == 0 {
		x.oblige(st, "propagate", "propagate-returned", c.Props, mkEq(pend, tNilI), "a pending error must be returned, but the function has no error result", "")
		return
	}
	ret, ok := rv[len(rv)-1].(Sc)
	if !ok || ret.T.Sort != sIface {
		return
	}
	wrapped := Term{"false", sBool}
	if tagErr := x.errorPtrTag(); tagErr != nil {
		cls := x.classTermSort(st, tagErr.class, arr(sInt, sIface))
		wrapped = mkAnd(x.hasTag(ret.T, tagErr.typ), mkEq(mkSelect(cls, app(sInt, "iref", ret.T)), pend))
	}
	g := mkImplies(mkNot(mkEq(pend, tNilI)), mkOr(mkEq(ret.T, pend), wrapped))
	x.oblige(st, "propagate", "propagate-returned", c.Props, g, "an error returned by a callee is returned at once (as is, or wrapped in *Error)", "")
}

// notePropagation is called after every contracted call at depth 0.
func (x *Exec) propagationBeforeCall(st *State, short string, site int, pos string) {
	if len(x.c.Propagates) == 0 || st.pending.S == "" || st.pending.S == "inil" {
		return
	}
	x.oblige(st, "propagate", fmt.Sprintf("propagate-stops:%s@%d", short, site), x.safetyProps(), mkEq(st.pending, tNilI), "nothing is called while an error returned by a callee is pending (errors are returned at once)", pos)
}

func (x *Exec) propagationAfterCall(st *State, short string, res []Val) {
	want := false
	for _, p := range x.c.Propagates {
		if p == short {
			want = true
		}
	}
	if !want || len(res) == 0 {
		return
	}
	errV, ok := res[len(res)-1].(Sc)
	if !ok || errV.T.Sort != sIface {
		return
	}
	if st.pending.S == "" {
		st.pending = tNilI
	}
	st.pending = x.def(st, "pending", mkIte(mkEq(st.pending, tNilI), errV.T, st.pending))
}

type errTag struct {
	typ   types.Type
	class string
}

func (x *Exec) errorPtrTag() *errTag {
	t, ok := x.prog.namedType("evaluator.Error")
	if !ok {
		return nil
	}
	return &errTag{typ: types.NewPointer(t), class: "evaluator.Error.err"}
}

func contractText(c *Contract) string {
	var sb strings.Builder
	for _, cl := range c.Requires {
		sb.WriteString(cl.Text + "\n")
	}
	for _, cl := range c.Ensures {
		sb.WriteString(cl.Text + "\n")
	}
	for _, l := range c.Loops {
		for _, cl := range l.Invariants {
			sb.WriteString(cl.Text + "\n")
		}
		if l.Decreases != nil {
			sb.WriteString(l.Decreases.Text + "\n")
		}
	}
	for _, l := range c.Lets {
		sb.WriteString(l.Text + "\n")
	}
	return sb.String()
}

// globalRelevant: an axiom about uninterpreted spec predicates (e.g. wf) is only assumed in functions
// whose contract mentions one of those predicates; other global invariants are always assumed.
func globalRelevant(p *Program, g, ctext string) bool {
	uses := false
	mentionsAny := false
	for name, pd := range p.specs.Pures {
		if pd.Body != "" {
			continue
		}
		if strings.Contains(g, name+"(") {
			uses = true
		}
		if strings.Contains(ctext, name+"(") {
			mentionsAny = true
		}
	}
	return !uses || mentionsAny
}

// safetyProps: safety obligations (nil, bounds, type assertions, frames, call preconditions, object
// invariants, propagation) belong to the function's primary property (the first one listed) and, when the
// function lists it, to C02 (accepted programs never crash the host).
func (x *Exec) safetyProps() []string {
	if len(x.c.Props) == 0 {
		return nil
	}
	out := []string{x.c.Props[0]}
	if x.c.Props[0] != "C02" && hasProp(x.c.Props, "C02") {
		out = append(out, "C02")
	}
	return out
}
