package main

import (
	"fmt"
	"go/types"
	"reflect"

	"golang.org/x/tools/go/ssa"
)

// If-conversion: a conditional whose two arms are small trees of straight-line blocks (field/element reads and
// writes, arithmetic, comma-ok assertions; no calls, allocations, returns or loops) that meet again in a single
// join block is executed as ONE path: both arms run on copies of the state and the results are merged with
// if-then-else terms. Obligations raised inside an arm are emitted under that arm's path condition as usual.
// This is the same semantics as path splitting (every later obligation holds iff it holds on both arms), with
// fewer, larger queries.

type mergeFail struct{ why string }

func simpleInstr(ins ssa.Instruction) bool {
	switch i := ins.(type) {
	case *ssa.FieldAddr, *ssa.IndexAddr, *ssa.BinOp, *ssa.Store, *ssa.Convert, *ssa.ChangeType, *ssa.MakeInterface,
		*ssa.Extract, *ssa.Lookup, *ssa.Field, *ssa.DebugRef, *ssa.Phi, *ssa.ChangeInterface:
		return true
	case *ssa.UnOp:
		return i.Op.String() != "<-"
	case *ssa.TypeAssert:
		return i.CommaOk
	}
	return false
}

// regionJoin finds the join block of the conditional ending block b, or nil when the arms are not mergeable.
func (x *Exec) regionJoin(fr *Frame, b *ssa.BasicBlock) *ssa.BasicBlock {
	li := x.loopInfoOf(fr.fn)
	exits := map[*ssa.BasicBlock]bool{}
	budget := 24
	var explore func(blk *ssa.BasicBlock) bool
	explore = func(blk *ssa.BasicBlock) bool {
		if _, isHdr := li.headers[blk.Index]; isHdr {
			return false
		}
		inner := len(blk.Preds) == 1
		if inner {
			for i, ins := range blk.Instrs {
				if i == len(blk.Instrs)-1 {
					switch ins.(type) {
					case *ssa.Jump, *ssa.If:
					default:
						inner = false
					}
				} else if !simpleInstr(ins) {
					inner = false
				}
			}
		}
		if !inner {
			exits[blk] = true
			return len(exits) == 1
		}
		budget--
		if budget < 0 {
			return false
		}
		for _, s := range blk.Succs {
			if !explore(s) {
				return false
			}
		}
		return true
	}
	for _, s := range b.Succs {
		if !explore(s) {
			return nil
		}
	}
	if len(exits) != 1 {
		return nil
	}
	for j := range exits {
		// the join must not end the function abruptly without instructions we can continue with
		return j
	}
	return nil
}

// tryRegion runs both arms of the conditional at the end of b (condition c) up to the join J and merges them.
func (x *Exec) tryRegion(fr *Frame, st *State, b *ssa.BasicBlock, J *ssa.BasicBlock, c Term, cond ssa.Value) (rfr *Frame, rst *State, ok bool) {
	n0 := len(x.obls)
	defer func() {
		if r := recover(); r != nil {
			if _, isM := r.(mergeFail); isM {
				x.obls = x.obls[:n0]
				rfr, rst, ok = nil, nil, false
				return
			}
			panic(r)
		}
	}()
	rfr, rst = x.forkRegion(fr, st, b, J, c, cond)
	return rfr, rst, true
}

func (x *Exec) forkRegion(fr *Frame, st *State, b *ssa.BasicBlock, J *ssa.BasicBlock, c Term, cond ssa.Value) (*Frame, *State) {
	nPC, nDefs := len(st.pc), len(st.defs)
	stA, frA := st.clone(), fr.clone()
	stB, frB := st.clone(), fr.clone()
	stA.pc = append(stA.pc, c)
	x.refineTypeAssert(frA, stA, cond)
	stB.pc = append(stB.pc, mkNot(c))
	frA, stA = x.runRegion(frA, stA, b.Succs[0], b, J)
	frB, stB = x.runRegion(frB, stB, b.Succs[1], b, J)
	return x.mergeStates(c, nPC, nDefs, frA, stA, frB, stB)
}

func (x *Exec) runRegion(fr *Frame, st *State, blk, prev, J *ssa.BasicBlock) (*Frame, *State) {
	// phis for the edge prev -> blk
	var phis []*ssa.Phi
	var nv []Val
	for _, ins := range blk.Instrs {
		phi, ok := ins.(*ssa.Phi)
		if !ok {
			break
		}
		idx := -1
		for i, p := range blk.Preds {
			if p == prev {
				idx = i
				break
			}
		}
		phis = append(phis, phi)
		nv = append(nv, x.val(fr, st, phi.Edges[idx]))
	}
	for i, phi := range phis {
		fr.vals[phi] = nv[i]
	}
	if blk == J {
		return fr, st
	}
	if fr.depth == 0 {
		st.trace = append(st.trace, fmt.Sprintf("%d:%s@%s", blk.Index, blk.Comment, lineOf(x.prog.fset, blk)))
	}
	last := len(blk.Instrs) - 1
	for _, ins := range blk.Instrs[:last] {
		if _, isPhi := ins.(*ssa.Phi); isPhi {
			continue
		}
		if _, isDbg := ins.(*ssa.DebugRef); isDbg {
			continue
		}
		x.step(fr, st, ins)
	}
	switch t := blk.Instrs[last].(type) {
	case *ssa.Jump:
		return x.runRegion(fr, st, blk.Succs[0], blk, J)
	case *ssa.If:
		c := x.val(fr, st, t.Cond).(Sc).T
		if c.S == "true" {
			return x.runRegion(fr, st, blk.Succs[0], blk, J)
		}
		if c.S == "false" {
			return x.runRegion(fr, st, blk.Succs[1], blk, J)
		}
		return x.forkRegion(fr, st, blk, J, c, t.Cond)
	}
	panic(mergeFail{"unexpected terminator"})
}

func (x *Exec) mergeStates(c Term, nPC, nDefs int, frA *Frame, stA *State, frB *Frame, stB *State) (*Frame, *State) {
	if stA.alloc.S != stB.alloc.S || len(stA.log) != len(stB.log) || stA.pending.S != stB.pending.S || len(stA.epochs) != len(stB.epochs) {
		panic(mergeFail{"arms changed allocation, call log or ghost state"})
	}
	st := stA.clone()
	st.pc = append([]Term(nil), stA.pc[:nPC]...)
	st.defs = append([]string(nil), stA.defs...)
	st.defs = append(st.defs, stB.defs[nDefs:]...)
	nc := mkNot(c)
	for _, p := range stA.pc[nPC:] {
		if p.S == c.S {
			continue
		}
		st.pc = append(st.pc, mkImplies(c, p))
	}
	for _, p := range stB.pc[nPC:] {
		if p.S == nc.S {
			continue
		}
		st.pc = append(st.pc, mkImplies(nc, p))
	}
	// heap classes (a class an arm never touched still has its lazily declared term of the current epoch there)
	classes := map[string]bool{}
	for cl := range stA.heap {
		classes[cl] = true
	}
	for cl := range stB.heap {
		classes[cl] = true
	}
	for _, cl := range sortedStrings(classes) {
		ta, okA := stA.heap[cl]
		tb, okB := stB.heap[cl]
		if !okA {
			ta = x.classTermSort(stA, cl, tb.Sort)
		}
		if !okB {
			tb = x.classTermSort(stB, cl, ta.Sort)
		}
		if ta.S == tb.S {
			st.heap[cl] = ta
			continue
		}
		st.heap[cl] = x.mergeClass(st, cl, c, ta, tb)
	}
	// dirty objects, local-object bookkeeping
	seen := map[string]bool{}
	for _, d := range st.dirty {
		seen[d.typ+"|"+d.ref.S] = true
	}
	for _, d := range stB.dirty {
		if !seen[d.typ+"|"+d.ref.S] {
			st.dirty = append(st.dirty, d)
		}
	}
	for k := range st.invSeen {
		if !stB.invSeen[k] {
			delete(st.invSeen, k)
		}
	}
	// an object first mutated inside one arm had its invariant recorded under that arm's condition only; it held at
	// the last boundary whichever arm is taken
	inDirty := func(l []dirtyObj, d dirtyObj) bool {
		for _, e := range l {
			if e.typ == d.typ && e.ref.S == d.ref.S {
				return true
			}
		}
		return false
	}
	all := st.dirty
	for _, d := range all {
		if inDirty(stA.dirty, d) && inDirty(stB.dirty, d) {
			continue
		}
		if x.freshRefs[d.ref.S] {
			continue
		}
		nt, ok := x.prog.namedType(d.typ)
		if !ok {
			continue
		}
		var rest []dirtyObj
		for _, e := range all {
			if !(e.typ == d.typ && e.ref.S == d.ref.S) {
				rest = append(rest, e)
			}
		}
		st.dirty = rest
		delete(st.invSeen, d.typ+"|"+d.ref.S)
		x.assumeTypeInv(st, Ptr{Prefix: d.typ, Idx: []Term{d.ref}, Elem: nt, Obj: true, GT: types.NewPointer(nt)})
	}
	st.dirty = all
	inB := map[string]bool{}
	for _, l := range stB.locals {
		inB[l.S] = true
	}
	var loc []Term
	for _, l := range st.locals {
		if inB[l.S] {
			loc = append(loc, l)
		}
	}
	st.locals = loc
	for k, v := range stB.inside {
		if _, ok := st.inside[k]; !ok {
			st.inside[k] = v
		}
	}
	// frame
	fr := frA.clone()
	for k, vb := range frB.vals {
		va, ok := fr.vals[k]
		if !ok {
			fr.vals[k] = vb
			continue
		}
		fr.vals[k] = x.mergeVal(st, c, va, vb)
	}
	for k, vb := range frB.regs {
		va, ok := fr.regs[k]
		if !ok {
			fr.regs[k] = vb
			continue
		}
		fr.regs[k] = x.mergeVal(st, c, va, vb)
	}
	return fr, st
}

// mergeClass: the class term after the conditional. When one arm is a chain of single-cell stores on top of the
// other arm's term the chain is replayed with conditional values, which keeps read-over-write resolution syntactic.
func (x *Exec) mergeClass(st *State, cl string, c Term, ta, tb Term) Term {
	if t, ok := x.replayStores(st, cl, c, ta, tb, false); ok {
		return t
	}
	if t, ok := x.replayStores(st, cl, c, tb, ta, true); ok {
		return t
	}
	x.nsym++
	name := quoteSym(fmt.Sprintf("H:%s!%d", cl, x.nsym))
	st.defs = append(st.defs, fmt.Sprintf("(define-fun %s () %s (ite %s %s %s))", name, ta.Sort, c.S, ta.S, tb.S))
	return Term{name, ta.Sort}
}

func (x *Exec) replayStores(st *State, cl string, c Term, top, base Term, negate bool) (Term, bool) {
	var chain []storeInfo
	cur := top
	for cur.S != base.S {
		info, ok := x.stores[cur.S]
		if !ok || len(info.idx) != 1 || len(chain) > 8 {
			return Term{}, false
		}
		chain = append(chain, info)
		cur = info.prev
	}
	cond := c
	if negate {
		cond = mkNot(c)
	}
	st.heap[cl] = base
	for i := len(chain) - 1; i >= 0; i-- {
		info := chain[i]
		prev := st.heap[cl]
		old := x.outerSelect(prev, info.idx[0])
		val := mkIte(cond, info.val, old)
		x.setClassStore(st, cl, prev, info.idx[0], val)
	}
	return st.heap[cl], true
}

func (x *Exec) mergeVal(st *State, c Term, a, b Val) Val {
	switch va := a.(type) {
	case Sc:
		vb, ok := b.(Sc)
		if !ok || va.T.Sort != vb.T.Sort {
			panic(mergeFail{"value kinds differ"})
		}
		if va.T.S == vb.T.S {
			return va
		}
		return Sc{x.def(st, "ite", mkIte(c, va.T, vb.T)), va.GT}
	case Sl:
		vb, ok := b.(Sl)
		if !ok {
			panic(mergeFail{"value kinds differ"})
		}
		m := func(p, q Term) Term {
			if p.S == q.S {
				return p
			}
			return x.def(st, "ite", mkIte(c, p, q))
		}
		return Sl{m(va.Base, vb.Base), m(va.Off, vb.Off), m(va.Len, vb.Len), m(va.Cap, vb.Cap), va.GT}
	case St:
		vb, ok := b.(St)
		if !ok || len(va.F) != len(vb.F) {
			panic(mergeFail{"value kinds differ"})
		}
		r := St{GT: va.GT}
		for i := range va.F {
			r.F = append(r.F, x.mergeVal(st, c, va.F[i], vb.F[i]))
		}
		return r
	case Tup:
		vb, ok := b.(Tup)
		if !ok || len(va.E) != len(vb.E) {
			panic(mergeFail{"value kinds differ"})
		}
		r := Tup{}
		for i := range va.E {
			r.E = append(r.E, x.mergeVal(st, c, va.E[i], vb.E[i]))
		}
		return r
	}
	if reflect.DeepEqual(a, b) {
		return a
	}
	panic(mergeFail{fmt.Sprintf("cannot merge %T values", a)})
}

var _ = types.Typ
