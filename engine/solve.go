package main

import (
	"bytes"
	"context"
	"fmt"
	"os"
	"os/exec"
	"path/filepath"
	"strings"
	"sync"
	"time"
)

type solverSpec struct {
	name string
	argv func(file string, secs int) []string
}

var solvers = []solverSpec{
	{"z3-new-5.1.0", func(f string, s int) []string { return append([]string{"z3-new", fmt.Sprintf("-T:%d", s)}, append(z3Seed(), f)...) }},
	{"cvc5-1.0", func(f string, s int) []string {
		a := []string{"cvc5", "--lang=smt2", fmt.Sprintf("--tlimit=%d", s*1000)}
		if sd := os.Getenv("EVYVC_SOLVER_SEED"); sd != "" {
			a = append(a, "--seed="+sd)
		}
		return append(a, f)
	}},
	{"z3-4.8.12", func(f string, s int) []string { return append([]string{"z3", fmt.Sprintf("-T:%d", s)}, append(z3Seed(), f)...) }},
}

// z3Seed: EVYVC_SOLVER_SEED perturbs the solvers' random seeds (stability sweeps: a proof that only goes through for
// one seed is an unstable proof and a false alarm waiting to happen).
func z3Seed() []string {
	if sd := os.Getenv("EVYVC_SOLVER_SEED"); sd != "" {
		return []string{"smt.random_seed=" + sd, "sat.random_seed=" + sd}
	}
	return nil
}

func runSolver(sv solverSpec, file string, secs int) (status, out string, dur float64) {
	return runSolverCtx(context.Background(), sv, file, secs)
}

func runSolverCtx(parent context.Context, sv solverSpec, file string, secs int) (status, out string, dur float64) {
	ctx, cancel := context.WithTimeout(parent, time.Duration(secs+2)*time.Second)
	defer cancel()
	argv := sv.argv(file, secs)
	cmd := exec.CommandContext(ctx, argv[0], argv[1:]...)
	var buf bytes.Buffer
	cmd.Stdout = &buf
	cmd.Stderr = &buf
	t0 := time.Now()
	_ = cmd.Run()
	dur = time.Since(t0).Seconds()
	out = buf.String()
	first := ""
	for _, l := range strings.Split(out, "\n") {
		l = strings.TrimSpace(l)
		if l == "" || strings.HasPrefix(l, "(error") && false {
			continue
		}
		first = l
		break
	}
	switch {
	case first == "unsat":
		status = "unsat"
	case first == "sat":
		status = "sat"
	case first == "unknown" || first == "timeout" || strings.Contains(first, "timeout") || strings.Contains(first, "interrupted"):
		status = "unknown"
	default:
		status = "error"
	}
	if ctx.Err() != nil && status == "error" {
		status = "unknown"
	}
	return
}

// discharge solves every obligation; sequential portfolio per obligation, obligations in parallel.
func discharge(obls []*Obligation, workDir string, tier string, jobs int) {
	os.MkdirAll(workDir, 0o755)
	// identical queries (same text after the header comments) are solved once
	groups := map[string][]*Obligation{}
	var leaders []*Obligation
	for _, o := range obls {
		if o.Script == "" {
			continue
		}
		key := scriptKey(o)
		if len(groups[key]) == 0 {
			leaders = append(leaders, o)
		}
		groups[key] = append(groups[key], o)
	}
	defer func() {
		for _, g := range groups {
			for _, o := range g[1:] {
				o.Status, o.Solver, o.Output, o.Model = g[0].Status, g[0].Solver+" (shared)", g[0].Output, g[0].Model
			}
		}
	}()
	obls = leaders
	budget := []int{20, 20, 20}
	if tier == "thorough" {
		budget = []int{90, 90, 90}
	}
	if tier == "retry" {
		budget = []int{75, 75, 75}
	}
	var wg sync.WaitGroup
	sem := make(chan struct{}, jobs)
	for i, o := range obls {
		if o.Script == "" {
			continue
		}
		wg.Add(1)
		sem <- struct{}{}
		go func(i int, o *Obligation) {
			defer wg.Done()
			defer func() { <-sem }()
			file := filepath.Join(workDir, fmt.Sprintf("%04d-%s-p%d.smt2", i, safeName(o.Name), o.Path))
			os.WriteFile(file, []byte(o.Script), 0o644)
			var outs []string
			if o.Cover || o.Must {
				// covers and canaries only guard against vacuity: unsat is the interesting answer, keep them cheap
				cb := 1
				if tier == "thorough" {
					cb = 20 // the thorough tier gives the vacuity covers a real chance to come back sat
				}
				st1, out1, d1 := runSolver(solvers[0], file, cb)
				o.Status, o.Solver, o.Secs = st1, solvers[0].name, d1
				if st1 != "unsat" && st1 != "sat" {
					o.Status = "unknown"
				}
				o.Output = solvers[0].name + ": " + firstLines(out1, 3)
				finishObl(o, file)
				return
			}
			// stage 0: sliced query (unsat there implies unsat of the full query)
			if o.Sliced != "" {
				sfile := strings.TrimSuffix(file, ".smt2") + ".sliced.smt2"
				os.WriteFile(sfile, []byte(o.Sliced), 0o644)
				for _, sv := range solvers[:2] {
					st0, _, d0 := runSolver(sv, sfile, 4)
					o.Secs += d0
					if st0 == "unsat" {
						o.Status, o.Solver = "unsat", sv.name+" (sliced)"
						o.Output = sv.name + ": unsat (sliced query)"
						if os.Getenv("EVYVC_KEEP") == "" {
							os.Remove(sfile)
						}
						finishObl(o, file)
						return
					}
					if st0 == "sat" {
						break
					}
				}
				if os.Getenv("EVYVC_KEEP") == "" {
					os.Remove(sfile)
				}
			}
			// stage 1: one solver, short budget (most obligations are easy)
			if st1, out1, d1 := runSolver(solvers[0], file, 2); st1 == "unsat" || st1 == "sat" {
				o.Status, o.Solver, o.Secs = st1, solvers[0].name, d1
				o.Output = solvers[0].name + ": " + firstLines(out1, 3)
				finishObl(o, file)
				return
			} else {
				o.Secs += d1
			}
			if o.Short {
				o.Status = "unknown"
				o.Output = "not decided in the short stages (known finding: the long stages are skipped)"
				finishObl(o, file)
				return
			}
			type res struct {
				status, out, name string
				dur               float64
			}
			ch := make(chan res, len(solvers))
			ctx, cancel := context.WithCancel(context.Background())
			bud := budget
			if strings.Contains(o.Script, "fp.to_sbv") || strings.Contains(o.Script, "to_fp 11 53) RNE") {
				// float<->64-bit-integer conversions are bit-blasted: give them room
				bud = []int{budget[0] * 4, budget[1] * 4, budget[2] * 4}
			}
			for si, sv := range solvers {
				go func(si int, sv solverSpec) {
					status, out, dur := runSolverCtx(ctx, sv, file, bud[si])
					ch <- res{status, out, sv.name, dur}
				}(si, sv)
			}
			o.Status = "unknown"
			for range solvers {
				r := <-ch
				o.Secs += r.dur
				outs = append(outs, r.name+": "+firstLines(r.out, 3))
				if (r.status == "unsat" || r.status == "sat") && o.Status == "unknown" {
					o.Status = r.status
					o.Solver = r.name
					cancel()
				}
			}
			cancel()
			o.Output = strings.Join(outs, " | ")
			finishObl(o, file)
		}(i, o)
	}
	wg.Wait()
}

func finishObl(o *Obligation, file string) {
	if os.Getenv("EVYVC_PROGRESS") != "" {
		fmt.Fprintf(os.Stderr, "[%s] %-8s %6.1fs %s p%d (%s)\n", time.Now().Format("15:04:05"), o.Status, o.Secs, o.Name, o.Path, o.Solver)
	}
	{
		{
			if o.Status == "sat" && !o.Cover {
				// fetch a model (z3-new gives the most readable ones)
				mfile := strings.TrimSuffix(file, ".smt2") + ".model.smt2"
				os.WriteFile(mfile, []byte(o.Script+"(get-model)\n"), 0o644)
				_, out, _ := runSolver(solvers[0], mfile, 10)
				if strings.HasPrefix(strings.TrimSpace(out), "sat") {
					o.Model = out
				}
			}
			if os.Getenv("EVYVC_KEEP") == "" && (o.Status == "unsat" || (o.Cover && o.Status == "sat")) {
				os.Remove(file)
			}
		}
	}
}

func safeName(s string) string {
	var sb strings.Builder
	for _, c := range s {
		if c >= 'a' && c <= 'z' || c >= 'A' && c <= 'Z' || c >= '0' && c <= '9' || c == '-' || c == '_' || c == '.' || c == '#' {
			sb.WriteRune(c)
		} else {
			sb.WriteByte('_')
		}
	}
	s = sb.String()
	if len(s) > 120 {
		s = s[:120]
	}
	return s
}

func firstLines(s string, n int) string {
	ls := strings.Split(strings.TrimSpace(s), "\n")
	if len(ls) > n {
		ls = ls[:n]
	}
	return strings.Join(ls, " / ")
}

func scriptKey(o *Obligation) string {
	s := o.Script
	// drop the two header comment lines (obligation name and path)
	for i := 0; i < 2; i++ {
		if j := strings.IndexByte(s, '\n'); j >= 0 && strings.HasPrefix(s, ";") {
			s = s[j+1:]
		}
	}
	kind := "p"
	if o.Cover {
		kind = "c"
	}
	if o.Must {
		kind = "m"
	}
	return kind + s
}
