package main

import (
	"fmt"
	"go/ast"
	"go/token"
	"go/types"
	"sort"
	"strings"

	"golang.org/x/tools/go/ssa"
)

type loop struct {
	header *ssa.BasicBlock
	blocks map[int]bool
	ord    int
}

type loopInfo struct {
	headers map[int]*loop
}

func (li *loopInfo) hasLoops() bool { return len(li.headers) > 0 }

func (x *Exec) loopInfoOf(fn *ssa.Function) *loopInfo {
	if li, ok := x.loops[fn]; ok {
		return li
	}
	li := &loopInfo{headers: map[int]*loop{}}
	for _, b := range fn.Blocks {
		for _, s := range b.Succs {
			if s.Dominates(b) { // back edge b -> s
				lp := li.headers[s.Index]
				if lp == nil {
					lp = &loop{header: s, blocks: map[int]bool{s.Index: true}}
					li.headers[s.Index] = lp
				}
				// natural loop: nodes reaching b without passing through s
				stack := []*ssa.BasicBlock{b}
				for len(stack) > 0 {
					n := stack[len(stack)-1]
					stack = stack[:len(stack)-1]
					if lp.blocks[n.Index] {
						continue
					}
					lp.blocks[n.Index] = true
					stack = append(stack, n.Preds...)
				}
			}
		}
	}
	var hs []int
	for h := range li.headers {
		hs = append(hs, h)
	}
	// ordinal by source position of the header (falls back to block index)
	sort.Slice(hs, func(i, j int) bool {
		pi, pj := blockPos(fn.Blocks[hs[i]]), blockPos(fn.Blocks[hs[j]])
		if pi != pj && pi > 0 && pj > 0 {
			return pi < pj
		}
		return hs[i] < hs[j]
	})
	for i, h := range hs {
		li.headers[h].ord = i + 1
	}
	x.loops[fn] = li
	return li
}

func blockPos(b *ssa.BasicBlock) int {
	best := 0
	for _, ins := range b.Instrs {
		if p := int(ins.Pos()); p > 0 && (best == 0 || p < best) {
			best = p
		}
	}
	return best
}

// loopWrites computes what a loop body may modify: phis, registers, heap class prefixes, iterators.
type loopWrites struct {
	exceptSets [][]string // callees that modify everything but a preserved set
	regs       map[*ssa.Alloc]bool
	pref       []string
	all        bool
	iters      map[*ssa.Range]bool
	calls      map[string]*logSig // contracted callees that may be called (and logged) in the loop
	dynCalls   bool               // a call whose callee is not known statically
}

// logSig: the argument (receiver first) and result types of a logged callee.
type logSig struct {
	args []types.Type
	res  []types.Type
}

func (w *loopWrites) noteCall(key string, sig *types.Signature, recv types.Type) {
	if w.calls == nil {
		w.calls = map[string]*logSig{}
	}
	ls := &logSig{}
	if recv != nil {
		ls.args = append(ls.args, recv)
	} else if sig.Recv() != nil {
		ls.args = append(ls.args, sig.Recv().Type())
	}
	for i := 0; i < sig.Params().Len(); i++ {
		ls.args = append(ls.args, sig.Params().At(i).Type())
	}
	for i := 0; i < sig.Results().Len(); i++ {
		ls.res = append(ls.res, sig.Results().At(i).Type())
	}
	w.calls[shortKey(key)] = ls
}

func (x *Exec) writesOf(fn *ssa.Function, blocks map[int]bool, depth int, w *loopWrites) {
	for _, b := range fn.Blocks {
		if blocks != nil && !blocks[b.Index] {
			continue
		}
		for _, ins := range b.Instrs {
			switch ins := ins.(type) {
			case *ssa.Store:
				if a, ok := ins.Addr.(*ssa.Alloc); ok && nonEscaping(a) {
					w.regs[a] = true
					continue
				}
				w.pref = append(w.pref, staticPrefix(ins.Addr)...)
			case *ssa.MapUpdate:
				mt := ins.Map.Type().Underlying().(*types.Map)
				d, v, s := mapClasses(mt)
				w.pref = append(w.pref, d, v, s)
			case *ssa.Next:
				if r, ok := ins.Iter.(*ssa.Range); ok {
					w.iters[r] = true
				}
			case *ssa.Alloc:
				if !nonEscaping(ins) {
					w.pref = append(w.pref, objPrefix(ins.Type().(*types.Pointer).Elem()))
				}
			case *ssa.MakeSlice:
				w.pref = append(w.pref, "elem:"+typeStr(ins.Type().Underlying().(*types.Slice).Elem()))
			case *ssa.MakeMap:
				d, v, s := mapClasses(ins.Type().Underlying().(*types.Map))
				w.pref = append(w.pref, d, v, s)
			case *ssa.Convert:
				if sl, ok := ins.Type().Underlying().(*types.Slice); ok {
					w.pref = append(w.pref, "elem:"+typeStr(sl.Elem()))
				}
			case *ssa.Call:
				x.callWrites(&ins.Call, depth, w)
			case *ssa.Defer:
				x.callWrites(&ins.Call, depth, w)
			case *ssa.MakeClosure:
				// closure creation itself writes nothing
			}
		}
	}
}

func (x *Exec) callWrites(cc *ssa.CallCommon, depth int, w *loopWrites) {
	if cc.IsInvoke() {
		key := "iface:"
		if n, ok := types.Unalias(cc.Value.Type()).(*types.Named); ok {
			if n.Obj().Pkg() != nil {
				key += n.Obj().Pkg().Name() + "."
			}
			key += "(" + n.Obj().Name() + ")." + cc.Method.Name()
		}
		if c, ok := x.prog.specs.Funcs[key]; ok {
			w.noteCall(key, cc.Signature(), cc.Value.Type())
			if c.ModSet {
				x.contractWrites(c, w)
				return
			}
		}
		w.all = true
		return
	}
	switch callee := cc.Value.(type) {
	case *ssa.Builtin:
		switch callee.Name() {
		case "append", "copy":
			if sl, ok := cc.Args[0].Type().Underlying().(*types.Slice); ok {
				w.pref = append(w.pref, "elem:"+typeStr(sl.Elem()))
			}
		case "delete":
			mt := cc.Args[0].Type().Underlying().(*types.Map)
			d, v, s := mapClasses(mt)
			w.pref = append(w.pref, d, v, s)
		}
	case *ssa.Function:
		key := calleeKey(callee)
		switch key {
		case "fmt.Errorf", "errors.New", "errors.Is":
			return
		}
		if c, ok := x.prog.specs.Funcs[key]; ok && !c.Inline {
			w.noteCall(key, callee.Signature, nil)
			if c.ModSet {
				x.contractWrites(c, w)
			} else {
				w.all = true
			}
			return
		}
		if callee.Blocks != nil && !x.loopInfoOf(callee).hasLoops() && depth < 4 && instrCount(callee) <= 120 {
			x.writesOf(callee, nil, depth+1, w)
			return
		}
		w.all = true
	default:
		if key := funcTypeKey(cc.Value.Type()); key != "" {
			if _, ok := x.prog.specs.Funcs[key]; ok {
				w.noteCall(key, cc.Signature(), cc.Value.Type())
			}
		}
		w.dynCalls = true
		w.all = true
	}
}

func (x *Exec) contractWrites(c *Contract, w *loopWrites) {
	for _, it := range c.Modifies {
		if len(it) > 6 && it[:6] == "class " {
			w.pref = append(w.pref, it[6:])
			continue
		}
		if len(it) > 7 && it[:7] == "allbut " {
			w.exceptSets = append(w.exceptSets, x.frameSet(trim(it[7:]), c))
			continue
		}
		if len(it) > 6 && it[:6] == "owned " {
			w.pref = append(w.pref, x.ownedClasses(trim(it[6:]), c)...)
			continue
		}
		// location items: class unknown statically
		if cl, ok := c.Opts["modclasses"]; ok {
			_ = cl
			continue
		}
		w.all = true
	}
	if cl, ok := c.Opts["modclasses"]; ok {
		for _, p := range splitTop(cl, ',') {
			w.pref = append(w.pref, trim(p))
		}
	}
}

func trim(s string) string {
	for len(s) > 0 && (s[0] == ' ' || s[0] == '\t') {
		s = s[1:]
	}
	for len(s) > 0 && (s[len(s)-1] == ' ' || s[len(s)-1] == '\t') {
		s = s[:len(s)-1]
	}
	return s
}

// staticPrefix over-approximates the heap classes a store through addr may touch.
func staticPrefix(addr ssa.Value) []string {
	switch a := addr.(type) {
	case *ssa.FieldAddr:
		st := a.X.Type().Underlying().(*types.Pointer).Elem().Underlying().(*types.Struct)
		var out []string
		for _, p := range staticPrefix(a.X) {
			out = append(out, p+"."+st.Field(a.Field).Name())
		}
		return out
	case *ssa.IndexAddr:
		switch t := a.X.Type().Underlying().(type) {
		case *types.Slice:
			return []string{"elem:" + typeStr(t.Elem())}
		case *types.Pointer:
			return []string{"elem:" + typeStr(t.Elem().Underlying().(*types.Array).Elem())}
		}
	case *ssa.Global:
		return []string{"global:" + a.Pkg.Pkg.Name() + "." + a.Name()}
	}
	pt, ok := addr.Type().Underlying().(*types.Pointer)
	if !ok {
		return nil
	}
	return []string{objPrefix(pt.Elem())}
}

func (x *Exec) loopSpec(fr *Frame, lp *loop) *LoopSpec {
	if fr.depth > 0 {
		return nil
	}
	return x.c.Loops[lp.ord]
}

// loopEntry: assert the invariant on entry, havoc what the loop modifies, assume the invariant.
func (x *Exec) loopEntry(fr *Frame, st *State, lp *loop, prev *ssa.BasicBlock) {
	if fr.depth > 0 {
		fail("loop inside inlined function %s", fr.fn.Name())
	}
	b := lp.header
	// initial phi values
	var phis []*ssa.Phi
	var init []Val
	for _, ins := range b.Instrs {
		phi, ok := ins.(*ssa.Phi)
		if !ok {
			break
		}
		idx := -1
		for i, p := range b.Preds {
			if p == prev {
				idx = i
			}
		}
		phis = append(phis, phi)
		init = append(init, x.val(fr, st, phi.Edges[idx]))
	}
	for i, phi := range phis {
		fr.vals[phi] = init[i]
	}
	ls := x.loopSpec(fr, lp)
	iter := x.loopIter(fr.fn, lp)
	ev := &specEnv{x: x, st: st, old: x.entry, vars: x.params, fr: fr, at: b, c: x.c, iter: iter}
	if ls != nil {
		for _, inv := range ls.Invariants {
			t := ev.evalBool(inv.Text)
			props := inv.Props
			if len(props) == 0 {
				props = x.c.Props // every postcondition of the function is proved assuming the invariant
			}
			x.obligeX(st, "invariant-init", inv.Name()+"-init", props, t, "loop invariant holds on entry: "+inv.Text, posStr(x.prog.fset, blockPosT(b)), inv.MustFail, false)
		}
	}
	// havoc
	w := &loopWrites{regs: map[*ssa.Alloc]bool{}, iters: map[*ssa.Range]bool{}}
	x.writesOf(fr.fn, lp.blocks, 0, w)
	for _, phi := range phis {
		fr.vals[phi] = x.freshVal(st, "phi."+phi.Comment, phi.Type())
		if phi.Comment == "rangeindex" {
			// the index of a range loop starts at -1 and only ever grows by one per iteration
			st.assume(app(sBool, "<=", intLit(-1), fr.vals[phi].(Sc).T))
		}
	}
	for a := range w.regs {
		if _, ok := fr.regs[a]; ok {
			fr.regs[a] = x.freshVal(st, "reg."+a.Comment, a.Type().(*types.Pointer).Elem())
		}
	}
	for r := range w.iters {
		if cur, ok := fr.iters[r]; ok {
			nv := x.fresh("iter", cur.Sort)
			if cur.Sort == sInt {
				st.assume(app(sBool, "<=", intLit(0), nv))
			}
			fr.iters[r] = nv
		}
	}
	if ls != nil && ls.ModSet {
		sev := &specEnv{x: x, st: st, old: x.entry, vars: x.params, fr: fr, at: b, c: x.c}
		x.applyModifies(sev, st, ls.Modifies)
	} else if w.all {
		x.havoc(st, true, nil)
	} else if len(w.pref) > 0 {
		x.havoc(st, false, w.pref)
	}
	na := x.fresh("alloc", sInt)
	st.assume(app(sBool, "<=", st.alloc, na))
	st.alloc = na
	st.dirty = nil
	st.invSeen = map[string]bool{}
	x.symbolizeLog(st, w)
	if len(x.c.Propagates) > 0 {
		st.pending = x.fresh("pending", sIface)
	}
	// re-validate values that are still in scope against the new allocation bound: they were valid before, and alloc only grows
	ev2 := &specEnv{x: x, st: st, old: x.entry, vars: x.params, fr: fr, at: b, c: x.c, iter: iter}
	if ls != nil {
		for _, inv := range ls.Invariants {
			if inv.MustFail {
				continue
			}
			st.assume(ev2.evalBool(inv.Text))
			x.noteFreshConjuncts(ev2, inv.Text)
		}
		if ls.Decreases != nil {
			v := ev2.eval(parseSpecExpr(ls.Decreases.Text)).(Sc)
			if fr.variants == nil {
				fr.variants = map[int]Term{}
			}
			fr.variants[b.Index] = ev2.coerceInt(v).T
		}
	}
	fr.loopIn[b.Index] = true
	if ls != nil && ls.ModSet {
		if fr.heads == nil {
			fr.heads = map[int]*State{}
		}
		snap := st.clone()
		snap.noSide = true
		fr.heads[b.Index] = snap
		fr.headFr = fr.clone()
	}
}

func blockPosT(b *ssa.BasicBlock) token.Pos {
	return token.Pos(blockPos(b))
}

// loopIter finds the map/string range iterator driven by this loop's header, if any.
func (x *Exec) loopIter(fn *ssa.Function, lp *loop) *ssa.Range {
	for _, ins := range lp.header.Instrs {
		if n, ok := ins.(*ssa.Next); ok {
			if r, ok := n.Iter.(*ssa.Range); ok {
				return r
			}
		}
	}
	return nil
}

// loopBackEdge: the invariant must be re-established and the variant must decrease.
func (x *Exec) loopBackEdge(fr *Frame, st *State, lp *loop, prev *ssa.BasicBlock) {
	b := lp.header
	fr2 := fr.clone()
	var phis []*ssa.Phi
	var nv []Val
	for _, ins := range b.Instrs {
		phi, ok := ins.(*ssa.Phi)
		if !ok {
			break
		}
		idx := -1
		for i, p := range b.Preds {
			if p == prev {
				idx = i
			}
		}
		phis = append(phis, phi)
		nv = append(nv, x.val(fr, st, phi.Edges[idx]))
	}
	for i, phi := range phis {
		fr2.vals[phi] = nv[i]
	}
	ls := x.loopSpec(fr, lp)
	if ls == nil {
		x.paths++
		return
	}
	x.checkTypeInvs(fr, st, "at loop back edge")
	x.checkPropagation(st, nil, true)
	ev := &specEnv{x: x, st: st, old: x.entry, vars: x.params, fr: fr2, at: b, c: x.c, iter: x.loopIter(fr.fn, lp)}
	for _, inv := range ls.Invariants {
		t := ev.evalBool(inv.Text)
		props := inv.Props
		if len(props) == 0 {
			props = x.c.Props
		}
		x.obligeX(st, "invariant-step", inv.Name()+"-step", props, t, "loop invariant preserved: "+inv.Text, posStr(x.prog.fset, blockPosT(b)), inv.MustFail, false)
	}
	if ls.ModSet && fr.heads[b.Index] != nil {
		hev := &specEnv{x: x, st: fr.heads[b.Index], old: x.entry, vars: x.params, fr: fr.headFr, at: b, c: x.c}
		x.frameCheckAgainst(st, fr.heads[b.Index], ls.Modifies, hev, fmt.Sprintf("loop%d-frame", lp.ord), x.safetyProps())
	}
	if ls.Decreases != nil {
		old := fr.variants[b.Index]
		v := ev.coerceInt(ev.eval(parseSpecExpr(ls.Decreases.Text)).(Sc)).T
		var g Term
		if v.Sort == sBV64 {
			g = mkAnd(app(sBool, "bvsle", bvLit(0), old), app(sBool, "bvslt", v, old))
		} else {
			g = mkAnd(app(sBool, "<=", intLit(0), old), app(sBool, "<", v, old))
		}
		props := ls.Decreases.Props
		if len(props) == 0 {
			props = x.safetyProps()
		}
		x.oblige(st, "decreases", fmt.Sprintf("loop%d-decreases", lp.ord), props, g, "variant decreases and is bounded below: "+ls.Decreases.Text, posStr(x.prog.fset, blockPosT(b)))
	}
	x.paths++
}

// symbolizeLog: the calls a loop may make are unknown in number; their log entries become a symbolic prefix
// (a count and one array per argument/result position) that loop invariants can constrain.
func (x *Exec) symbolizeLog(st *State, w *loopWrites) {
	if len(w.calls) == 0 {
		return
	}
	nm := map[string]*SymLog{}
	for k, v := range st.logSym {
		nm[k] = v
	}
	var names []string
	for n := range w.calls {
		names = append(names, n)
	}
	sort.Strings(names)
	for _, n := range names {
		old := x.ncallsTerm(st, n)
		x.logID++
		sl := &SymLog{N: x.fresh("ncalls", sInt), ID: x.logID, Sig: w.calls[n]}
		st.assume(app(sBool, "<=", old, sl.N))
		nm[n] = sl
	}
	st.logSym = nm
	var keep []LogEntry
	for _, l := range st.log {
		if _, ok := w.calls[l.Callee]; !ok {
			keep = append(keep, l)
		}
	}
	st.log = keep
}

// ncallsTerm: the number of logged calls of name so far.
func (x *Exec) ncallsTerm(st *State, name string) Term {
	c := 0
	first := ""
	for _, l := range st.log {
		if l.Callee == name {
			if first == "" {
				first = l.Key
			} else if l.Key != first {
				fail("call log name %q is ambiguous on this path (%s and %s): qualify the contracts or rename", name, first, l.Key)
			}
			c++
		}
	}
	if sl := st.logSym[name]; sl != nil {
		if c == 0 {
			return sl.N
		}
		return app(sInt, "+", sl.N, intLit(int64(c)))
	}
	return intLit(int64(c))
}

// logLookup: argument (res=false) or result (res=true) j of the k-th call of name.
func (x *Exec) logLookup(st *State, name string, k Term, j int, res bool) Val {
	sl := st.logSym[name]
	var ents []LogEntry
	for _, l := range st.log {
		if l.Callee == name {
			if len(ents) > 0 && ents[0].Key != l.Key {
				fail("call log name %q is ambiguous on this path (%s and %s)", name, ents[0].Key, l.Key)
			}
			ents = append(ents, l)
		}
	}
	pick := func(l LogEntry) Val {
		if res {
			if j >= len(l.Res) {
				fail("call log of %s has no result %d", name, j)
			}
			return l.Res[j]
		}
		if j >= len(l.Args) {
			fail("call log of %s has no argument %d", name, j)
		}
		return l.Args[j]
	}
	none := func() Val { return Sc{x.fresh("nocall", sIface), types.NewInterfaceType(nil, nil)} }
	if kv, ok := litVal(k); ok && sl == nil {
		if kv >= 1 && int(kv) <= len(ents) {
			return pick(ents[kv-1])
		}
		// no such call on this path: the clause must be guarded by ncalls(); return an unconstrained value
		if t := x.logPosType(name, j, res); t != nil {
			switch t.Underlying().(type) {
			case *types.Tuple, *types.Array:
			default:
				return x.freshVal(st, "nocall", t)
			}
		}
		return none()
	}
	var gt types.Type
	var dflt Term
	if sl != nil {
		ts := sl.Sig.args
		tag := "a"
		if res {
			ts, tag = sl.Sig.res, "r"
		}
		if j >= len(ts) {
			fail("call log of %s has no position %d", name, j)
		}
		gt = ts[j]
		switch gt.Underlying().(type) {
		case *types.Slice, *types.Struct, *types.Tuple, *types.Array:
			fail("call log of %s: position %d of type %s cannot be referred to symbolically", name, j, gt)
		}
		so := x.sortOf(gt)
		arr := Term{S: quoteSym(fmt.Sprintf("log:%s:%d:%s%d", name, sl.ID, tag, j)), Sort: "(Array Int " + so + ")"}
		x.decls.add(arr.S, fmt.Sprintf("(declare-fun %s () %s)", arr.S, arr.Sort))
		dflt = mkSelect(arr, k)
		dflt.Sort = so
	} else {
		if len(ents) == 0 {
			// no call on this path: an unconstrained value of the position's static type, if the callee is known
			if t := x.logPosType(name, j, res); t != nil {
				switch t.Underlying().(type) {
				case *types.Tuple, *types.Array:
				case *types.Slice, *types.Struct:
					return x.freshVal(st, "nocall", t)
				default:
					return Sc{x.fresh("nocall", x.sortOf(t)), t}
				}
			}
			return none()
		}
		sc, ok := pick(ents[0]).(Sc)
		if !ok {
			fail("call log of %s: position %d cannot be referred to symbolically", name, j)
		}
		gt = sc.GT
		dflt = x.fresh("nocall", sc.T.Sort)
	}
	out := dflt
	base := intLit(0)
	if sl != nil {
		base = sl.N
	}
	for m := len(ents) - 1; m >= 0; m-- {
		sc, ok := pick(ents[m]).(Sc)
		if !ok || sc.T.Sort != out.Sort {
			fail("call log of %s: position %d has mixed or composite values", name, j)
		}
		out = mkIte(mkEq(k, app(sInt, "+", base, intLit(int64(m+1)))), sc.T, out)
	}
	return Sc{out, gt}
}

// logPosType: the static type of argument/result position j of the contracted function logged as name.
func (x *Exec) logPosType(name string, j int, res bool) types.Type {
	for _, k := range x.prog.specs.Order {
		if shortKey(k) != name || strings.HasPrefix(k, "functype:") {
			continue
		}
		var sig *types.Signature
		if strings.HasPrefix(k, "iface:") {
			// iface:pkg.(Name).Method
			q := strings.TrimPrefix(k, "iface:")
			a, b := strings.Index(q, ".("), strings.Index(q, ").")
			if a < 0 || b < 0 {
				continue
			}
			nt, ok := x.prog.namedType(q[:a] + "." + q[a+2:b])
			if !ok {
				continue
			}
			it, ok := nt.Underlying().(*types.Interface)
			if !ok {
				continue
			}
			for i := 0; i < it.NumMethods(); i++ {
				if it.Method(i).Name() == q[b+2:] {
					sig = it.Method(i).Type().(*types.Signature)
				}
			}
			if sig == nil {
				continue
			}
			if !res {
				if j == 0 {
					return nt
				}
				if j-1 < sig.Params().Len() {
					return sig.Params().At(j - 1).Type()
				}
				return nil
			}
		} else {
			sig = x.prog.signatureOf(k)
		}
		if sig == nil {
			continue
		}
		if res {
			if j < sig.Results().Len() {
				return sig.Results().At(j).Type()
			}
			return nil
		}
		if sig.Recv() != nil {
			if j == 0 {
				return sig.Recv().Type()
			}
			j--
		}
		if j < sig.Params().Len() {
			return sig.Params().At(j).Type()
		}
	}
	return nil
}

// noteFreshConjuncts: an assumed clause with top-level conjuncts fresh(e) tells the syntactic heap resolution that
// the reference e was allocated during this call, hence differs from every reference that existed at entry.
func (x *Exec) noteFreshConjuncts(ev *specEnv, text string) {
	n := parseSpecExpr(text)
	if n.op != "" || n.e == nil {
		return
	}
	var walk func(e ast.Expr)
	walk = func(e ast.Expr) {
		switch e := e.(type) {
		case *ast.ParenExpr:
			walk(e.X)
		case *ast.BinaryExpr:
			if e.Op == token.LAND {
				walk(e.X)
				walk(e.Y)
			}
		case *ast.CallExpr:
			if id, ok := e.Fun.(*ast.Ident); ok && id.Name == "fresh" && len(e.Args) == 1 && ev.old != nil {
				func() {
					defer func() { recover() }()
					sub := &specNode{e: e.Args[0], ph: n.ph, text: exprString(e.Args[0])}
					r := ev.refOf(ev.eval(sub))
					if x.lowerOf == nil {
						x.lowerOf = map[string]int{}
					}
					x.lowerOf[r.S] = allocNum(ev.old.alloc.S)
				}()
			}
		}
	}
	walk(n.e)
}
