package main

import (
	"bufio"
	"fmt"
	"go/ast"
	"go/parser"
	"go/token"
	"os"
	"regexp"
	"strconv"
	"strings"
)

// Clause is one requires/ensures/invariant/... line of a contract.
type Clause struct {
	Kind     string // requires ensures invariant decreases assume-entry
	Props    []string
	Label    string
	Text     string
	Loop     int
	MustFail bool
	Ord      int
	File     string
	Line     int
}

// Name returns the suffix used in obligation names, e.g. ensures#2 or ensures#iff.
func (c *Clause) Name() string {
	k := c.Kind
	if c.Loop > 0 {
		k = fmt.Sprintf("loop%d-%s", c.Loop, c.Kind)
	}
	if c.Label != "" {
		return k + "#" + c.Label
	}
	return fmt.Sprintf("%s#%d", k, c.Ord)
}

type LoopSpec struct {
	Invariants []*Clause
	Decreases  *Clause
	Modifies   []string
	ModSet     bool
}

type LetDef struct{ Name, Text string }

// Contract is the specification of one function.
type Contract struct {
	Key        string // e.g. "evaluator.normalizeIndex", "evaluator.(*arrayVal).Slice", "fmt.Errorf"
	Pkg        string // short package name of the contract file ("" for trusted table)
	Header     string
	Recv       string
	Params     []string
	Results    []string
	Props      []string
	Ints       string // "math" (default) or "bv64"
	Requires   []*Clause
	Ensures    []*Clause
	Loops      map[int]*LoopSpec
	Modifies   []string
	ModSet     bool
	Lets       []LetDef
	Inline     bool
	Trusted    bool
	Pure       bool // result is an uninterpreted function of the arguments
	Iface      bool // interface-level contract
	NoVerify   bool // contract assumed at call sites but body not verified here (listed)
	PanicOK    bool // explicit panics are declared outcomes
	Logs       []string
	File       string
	Line       int
	Refines    string
	Propagates []string // callees whose error result must be returned at once (nothing else is called after it)
	Opts       map[string]string
}

// PureDef is a spec-only function: //@ pure name(a T, b U) R = expr
type PureDef struct {
	Name   string
	Params []string
	PTypes []string
	RType  string
	Body   string
	Pkg    string
}

// TypeInv is an object invariant on a struct type.
type TypeInv struct {
	Pkg, Type, Text string
	Props           []string
}

// Specs holds everything parsed from contract files.
type Specs struct {
	Funcs     map[string]*Contract
	Order     []string
	Pures     map[string]*PureDef
	Globals   map[string][]string // pkg -> global invariants (assumed at entry)
	TypeInv   map[string][]*TypeInv
	Files     []string
	Assumes   []string        // textual list of "assume"/"trusted" occurrences
	Owned     map[string]bool // owned map fields: "pkg.Type.field"
	FrameSets map[string][]string
	Unwraps   map[string]string // "pkg.Type" -> field holding the wrapped error (type has Unwrap() error)
}

func newSpecs() *Specs {
	return &Specs{Funcs: map[string]*Contract{}, Pures: map[string]*PureDef{}, Globals: map[string][]string{}, TypeInv: map[string][]*TypeInv{}, Owned: map[string]bool{}, FrameSets: map[string][]string{}, Unwraps: map[string]string{}}
}

var clauseRe = regexp.MustCompile(`^(mustfail\s+)?(requires|ensures|invariant|decreases)(\[[^\]]*\])?\s+(.*)$`)
var loopRe = regexp.MustCompile(`^loop\s+(\d+)\s+(.*)$`)
var propRe = regexp.MustCompile(`^C\d{2,3}$`)

// parseSpecFile reads //@ lines of a file. pkg is the short package name for keys ("" = keys are given fully qualified).
func (sp *Specs) parseSpecFile(path, pkg string) error {
	f, err := os.Open(path)
	if err != nil {
		return err
	}
	defer f.Close()
	sp.Files = append(sp.Files, path)
	sc := bufio.NewScanner(f)
	sc.Buffer(make([]byte, 1<<20), 1<<20)
	var cur *Contract
	lineNo := 0
	var pending string
	for sc.Scan() {
		lineNo++
		raw := strings.TrimSpace(sc.Text())
		if !strings.HasPrefix(raw, "//@") {
			continue
		}
		line := strings.TrimSpace(raw[3:])
		if line == "" || strings.HasPrefix(line, "#") {
			continue
		}
		if strings.HasSuffix(line, "\\") {
			pending += strings.TrimSuffix(line, "\\") + " "
			continue
		}
		line = pending + line
		pending = ""
		switch {
		case strings.HasPrefix(line, "func "), strings.HasPrefix(line, "iface "):
			isIface := strings.HasPrefix(line, "iface ")
			isFuncType := strings.HasPrefix(line, "func type ")
			hdr := line
			if isIface {
				hdr = "func " + strings.TrimPrefix(line, "iface ")
			}
			if isFuncType {
				hdr = "func " + strings.TrimPrefix(line, "func type ")
			}
			c, err := parseHeader(hdr, pkg)
			if err != nil {
				return fmt.Errorf("%s:%d: %v", path, lineNo, err)
			}
			c.Iface = isIface
			if isIface {
				c.Key = "iface:" + c.Key
			}
			if isFuncType {
				c.Key = "functype:" + c.Key
				c.Trusted = true
			}
			c.File, c.Line = path, lineNo
			if _, dup := sp.Funcs[c.Key]; dup {
				return fmt.Errorf("%s:%d: duplicate contract for %s", path, lineNo, c.Key)
			}
			sp.Funcs[c.Key] = c
			sp.Order = append(sp.Order, c.Key)
			cur = c
		case strings.HasPrefix(line, "pure "):
			pd, err := parsePure(strings.TrimPrefix(line, "pure "), pkg)
			if err != nil {
				return fmt.Errorf("%s:%d: %v", path, lineNo, err)
			}
			sp.Pures[pd.Name] = pd
			cur = nil
		case strings.HasPrefix(line, "global "):
			sp.Globals[pkg] = append(sp.Globals[pkg], strings.TrimSpace(strings.TrimPrefix(line, "global ")))
			sp.Assumes = append(sp.Assumes, fmt.Sprintf("global invariant assumed (%s): %s", pkg, strings.TrimPrefix(line, "global ")))
			cur = nil
		case strings.HasPrefix(line, "frameset "):
			rest := strings.TrimPrefix(line, "frameset ")
			i := strings.Index(rest, "=")
			if i < 0 {
				return fmt.Errorf("%s:%d: frameset needs '='", path, lineNo)
			}
			var items []string
			for _, it := range strings.Split(rest[i+1:], ",") {
				if t := strings.TrimSpace(it); t != "" {
					items = append(items, t)
				}
			}
			sp.FrameSets[strings.TrimSpace(rest[:i])] = append(sp.FrameSets[strings.TrimSpace(rest[:i])], items...)
			cur = nil
		case strings.HasPrefix(line, "unwraps "):
			fs := strings.Fields(strings.TrimPrefix(line, "unwraps "))
			if len(fs) != 2 {
				return fmt.Errorf("%s:%d: unwraps Type field", path, lineNo)
			}
			sp.Unwraps[pkg+"."+fs[0]] = fs[1]
			sp.Assumes = append(sp.Assumes, "trusted: errors.Is on *"+pkg+"."+fs[0]+" follows its Unwrap method (field "+fs[1]+")")
			cur = nil
		case strings.HasPrefix(line, "owned "):
			sp.Owned[pkg+"."+strings.TrimSpace(strings.TrimPrefix(line, "owned "))] = true
			cur = nil
		case strings.HasPrefix(line, "typeinv "):
			rest := strings.TrimPrefix(line, "typeinv ")
			i := strings.Index(rest, ":")
			if i < 0 {
				return fmt.Errorf("%s:%d: typeinv needs 'Type: expr'", path, lineNo)
			}
			tn := strings.TrimSpace(rest[:i])
			sp.TypeInv[pkg+"."+tn] = append(sp.TypeInv[pkg+"."+tn], &TypeInv{Pkg: pkg, Type: tn, Text: strings.TrimSpace(rest[i+1:])})
			cur = nil
		case line == "end":
			cur = nil
		default:
			if cur == nil {
				return fmt.Errorf("%s:%d: directive outside func block: %s", path, lineNo, line)
			}
			if err := parseDirective(cur, line, path, lineNo, sp); err != nil {
				return fmt.Errorf("%s:%d: %v", path, lineNo, err)
			}
		}
	}
	return sc.Err()
}

func parseHeader(hdr, pkg string) (*Contract, error) {
	src := "package p\n" + hdr + " {}"
	// allow qualified function names (fmt.Errorf) by rewriting the dot
	qual := ""
	if m := regexp.MustCompile(`^func\s+([A-Za-z0-9_/\.\-]+)\.([A-Za-z0-9_]+)\(`).FindStringSubmatch(hdr); m != nil && !strings.HasPrefix(strings.TrimSpace(hdr[4:]), "(") {
		qual = m[1]
		src = "package p\nfunc " + m[2] + hdr[len(m[0])-1:] + " {}"
	}
	fset := token.NewFileSet()
	f, err := parser.ParseFile(fset, "hdr.go", src, 0)
	if err != nil {
		return nil, fmt.Errorf("bad header %q: %v", hdr, err)
	}
	fd := f.Decls[0].(*ast.FuncDecl)
	c := &Contract{Header: hdr, Pkg: pkg, Loops: map[int]*LoopSpec{}, Ints: "math", Opts: map[string]string{}}
	name := fd.Name.Name
	if fd.Recv != nil && len(fd.Recv.List) == 1 {
		r := fd.Recv.List[0]
		if len(r.Names) == 1 {
			c.Recv = r.Names[0].Name
		} else {
			c.Recv = "self"
		}
		tn := exprString(r.Type)
		if strings.HasPrefix(tn, "*") {
			name = "(*" + tn[1:] + ")." + name
		} else {
			name = "(" + tn + ")." + name
		}
	}
	if qual != "" {
		c.Key = qual + "." + name
	} else if pkg != "" {
		c.Key = pkg + "." + name
	} else {
		c.Key = name
	}
	n := 0
	for _, p := range fd.Type.Params.List {
		if len(p.Names) == 0 {
			c.Params = append(c.Params, fmt.Sprintf("_p%d", n))
			n++
		}
		for _, nm := range p.Names {
			c.Params = append(c.Params, nm.Name)
			n++
		}
	}
	if fd.Type.Results != nil {
		n = 0
		for _, p := range fd.Type.Results.List {
			if len(p.Names) == 0 {
				c.Results = append(c.Results, fmt.Sprintf("_r%d", n))
				n++
			}
			for _, nm := range p.Names {
				c.Results = append(c.Results, nm.Name)
				n++
			}
		}
	}
	return c, nil
}

func exprString(e ast.Expr) string {
	switch e := e.(type) {
	case *ast.Ident:
		return e.Name
	case *ast.StarExpr:
		return "*" + exprString(e.X)
	case *ast.SelectorExpr:
		return exprString(e.X) + "." + e.Sel.Name
	case *ast.ArrayType:
		if e.Len == nil {
			return "[]" + exprString(e.Elt)
		}
		return "[" + exprString(e.Len) + "]" + exprString(e.Elt)
	case *ast.MapType:
		return "map[" + exprString(e.Key) + "]" + exprString(e.Value)
	case *ast.BasicLit:
		return e.Value
	case *ast.InterfaceType:
		return "interface{}"
	case *ast.Ellipsis:
		return "..." + exprString(e.Elt)
	case *ast.IndexExpr:
		return exprString(e.X) + "[" + exprString(e.Index) + "]"
	case *ast.ParenExpr:
		return "(" + exprString(e.X) + ")"
	case *ast.FuncType:
		return "func"
	}
	return fmt.Sprintf("%T", e)
}

func parsePure(s, pkg string) (*PureDef, error) {
	// name(a T, b U) R = body     or  name(a T) R   (uninterpreted)
	body := ""
	if i := strings.Index(s, " = "); i >= 0 {
		body = strings.TrimSpace(s[i+3:])
		s = s[:i]
	}
	src := "package p\nfunc " + s + " {}"
	fset := token.NewFileSet()
	f, err := parser.ParseFile(fset, "pure.go", src, 0)
	if err != nil {
		return nil, fmt.Errorf("bad pure %q: %v", s, err)
	}
	fd := f.Decls[0].(*ast.FuncDecl)
	pd := &PureDef{Name: fd.Name.Name, Body: body, Pkg: pkg}
	for _, p := range fd.Type.Params.List {
		for _, nm := range p.Names {
			pd.Params = append(pd.Params, nm.Name)
			pd.PTypes = append(pd.PTypes, exprString(p.Type))
		}
	}
	if fd.Type.Results == nil || len(fd.Type.Results.List) != 1 {
		return nil, fmt.Errorf("pure %s needs exactly one result type", pd.Name)
	}
	pd.RType = exprString(fd.Type.Results.List[0].Type)
	return pd, nil
}

func parseDirective(c *Contract, line, path string, lineNo int, sp *Specs) error {
	loop := 0
	if m := loopRe.FindStringSubmatch(line); m != nil {
		loop, _ = strconv.Atoi(m[1])
		line = m[2]
		if c.Loops[loop] == nil {
			c.Loops[loop] = &LoopSpec{}
		}
	}
	if m := clauseRe.FindStringSubmatch(line); m != nil {
		cl := &Clause{Kind: m[2], Text: strings.TrimSpace(m[4]), Loop: loop, MustFail: m[1] != "", File: path, Line: lineNo}
		if m[3] != "" {
			for _, tok := range strings.FieldsFunc(m[3][1:len(m[3])-1], func(r rune) bool { return r == ',' || r == ' ' }) {
				if propRe.MatchString(tok) {
					cl.Props = append(cl.Props, tok)
				} else {
					cl.Label = tok
				}
			}
		}
		switch cl.Kind {
		case "requires":
			if loop > 0 {
				return fmt.Errorf("requires inside loop")
			}
			cl.Ord = len(c.Requires) + 1
			c.Requires = append(c.Requires, cl)
		case "ensures":
			cl.Ord = len(c.Ensures) + 1
			c.Ensures = append(c.Ensures, cl)
			if strings.HasPrefix(cl.Label, "assumed-") {
				sp.Assumes = append(sp.Assumes, "assumed postcondition of "+c.Key+" (used by callers, not proved on its body): "+cl.Text)
			}
		case "invariant":
			if loop == 0 {
				return fmt.Errorf("invariant needs 'loop N'")
			}
			ls := c.Loops[loop]
			cl.Ord = len(ls.Invariants) + 1
			ls.Invariants = append(ls.Invariants, cl)
		case "decreases":
			if loop == 0 {
				return fmt.Errorf("decreases needs 'loop N'")
			}
			cl.Ord = 1
			c.Loops[loop].Decreases = cl
		}
		return nil
	}
	fields := strings.Fields(line)
	switch fields[0] {
	case "props":
		c.Props = append(c.Props, fields[1:]...)
	case "ints":
		c.Ints = fields[1]
	case "modifies":
		rest := strings.TrimSpace(strings.TrimPrefix(line, "modifies"))
		var items []string
		if strings.HasPrefix(rest, "allbut ") {
			items = append(items, rest)
		} else if rest != "nothing" {
			for _, it := range splitTop(rest, ',') {
				items = append(items, strings.TrimSpace(it))
			}
		}
		if loop > 0 {
			c.Loops[loop].Modifies = append(c.Loops[loop].Modifies, items...)
			c.Loops[loop].ModSet = true
		} else {
			c.Modifies = append(c.Modifies, items...)
			c.ModSet = true
		}
	case "let":
		rest := strings.TrimSpace(strings.TrimPrefix(line, "let"))
		i := strings.Index(rest, "=")
		if i < 0 {
			return fmt.Errorf("let needs '='")
		}
		c.Lets = append(c.Lets, LetDef{strings.TrimSpace(rest[:i]), strings.TrimSpace(rest[i+1:])})
	case "inline":
		c.Inline = true
	case "trusted":
		c.Trusted = true
		sp.Assumes = append(sp.Assumes, "trusted contract (not verified): "+c.Key)
	case "noverify":
		c.NoVerify = true
		sp.Assumes = append(sp.Assumes, "contract assumed, body not verified: "+c.Key+" — "+strings.TrimSpace(strings.TrimPrefix(line, "noverify")))
	case "pure":
		c.Pure = true
	case "panics":
		c.PanicOK = true
	case "logs":
		c.Logs = append(c.Logs, fields[1:]...)
	case "key":
		delete(sp.Funcs, c.Key)
		for i, k := range sp.Order {
			if k == c.Key {
				sp.Order[i] = fields[1]
			}
		}
		c.Key = fields[1]
		sp.Funcs[c.Key] = c
	case "propagates":
		c.Propagates = append(c.Propagates, fields[1:]...)
	case "refines":
		c.Refines = fields[1]
	case "opt":
		if len(fields) >= 3 {
			c.Opts[fields[1]] = strings.Join(fields[2:], " ")
		} else if len(fields) == 2 {
			c.Opts[fields[1]] = "true"
		}
	default:
		return fmt.Errorf("unknown directive %q", line)
	}
	return nil
}

// splitTop splits s at sep occurring at paren/bracket depth 0.
func splitTop(s string, sep byte) []string {
	var out []string
	d := 0
	last := 0
	inStr := byte(0)
	for i := 0; i < len(s); i++ {
		c := s[i]
		if inStr != 0 {
			if c == '\\' {
				i++
			} else if c == inStr {
				inStr = 0
			}
			continue
		}
		switch c {
		case '"', '\'', '`':
			inStr = c
		case '(', '[', '{':
			d++
		case ')', ']', '}':
			d--
		default:
			if c == sep && d == 0 {
				out = append(out, s[last:i])
				last = i + 1
			}
		}
	}
	out = append(out, s[last:])
	return out
}

// splitTopStr finds the first occurrence of tok at depth 0 (outside strings); returns -1 if none.
func indexTop(s, tok string) int {
	d := 0
	inStr := byte(0)
	for i := 0; i < len(s); i++ {
		c := s[i]
		if inStr != 0 {
			if c == '\\' {
				i++
			} else if c == inStr {
				inStr = 0
			}
			continue
		}
		switch c {
		case '"', '\'', '`':
			inStr = c
		case '(', '[', '{':
			d++
		case ')', ']', '}':
			d--
		}
		if d == 0 && strings.HasPrefix(s[i:], tok) {
			return i
		}
	}
	return -1
}

func hasProp(props []string, p string) bool {
	for _, q := range props {
		if q == p {
			return true
		}
	}
	return false
}
