package main

import (
	"bufio"
	"encoding/json"
	"flag"
	"fmt"
	"os"
	"path/filepath"
	"sort"
	"strconv"
	"strings"
	"time"
)

type knownFinding struct {
	Prop, Obligation, What string
}

func loadKnownFindings() (open []knownFinding, fixed []string) {
	f, err := os.Open(filepath.Join(verifDir, "KNOWN_FINDINGS.txt"))
	if err != nil {
		return
	}
	defer f.Close()
	sc := bufio.NewScanner(f)
	for sc.Scan() {
		line := strings.TrimSpace(sc.Text())
		if strings.HasPrefix(line, "fixed:") {
			fixed = append(fixed, line)
			continue
		}
		if !strings.HasPrefix(line, "finding:") {
			continue
		}
		kf := knownFinding{}
		rest := strings.TrimSpace(strings.TrimPrefix(line, "finding:"))
		if i := strings.Index(rest, " what="); i >= 0 {
			kf.What = rest[i+6:]
			rest = rest[:i]
		}
		for _, fld := range strings.Fields(rest) {
			if strings.HasPrefix(fld, "property=") {
				kf.Prop = strings.TrimPrefix(fld, "property=")
			}
			if strings.HasPrefix(fld, "obligation=") {
				kf.Obligation = strings.TrimPrefix(fld, "obligation=")
			}
		}
		open = append(open, kf)
	}
	return
}

func loadLock() map[string][]string {
	m := map[string][]string{}
	f, err := os.Open(filepath.Join(verifDir, "obligations.lock"))
	if err != nil {
		return m
	}
	defer f.Close()
	sc := bufio.NewScanner(f)
	for sc.Scan() {
		fs := strings.SplitN(strings.TrimSpace(sc.Text()), " ", 2)
		if len(fs) == 2 && !strings.HasPrefix(fs[0], "#") {
			m[fs[0]] = append(m[fs[0]], fs[1])
		}
	}
	return m
}

type funcEvidence struct {
	Function    string  `json:"function"`
	Ints        string  `json:"ints"`
	Paths       int     `json:"paths"`
	Obligations int     `json:"obligations"`
	Instances   int     `json:"instances"`
	SolverSecs  float64 `json:"solver_s"`
	Error       string  `json:"error,omitempty"`
}

type violation struct {
	Obligation string `json:"obligation"`
	Kind       string `json:"kind"`
	Clause     string `json:"clause"`
	Status     string `json:"status"`
	Reason     string `json:"reason"`
	Pos        string `json:"pos,omitempty"`
	Solvers    string `json:"solver_output"`
	Model      string `json:"model,omitempty"`
	Replay     string `json:"replay,omitempty"`
	Confirmed  bool   `json:"confirmed_on_real_code"`
	Path       int    `json:"path"`
	SMTFile    string `json:"smt_file,omitempty"`
}

func cmdCheck(args []string) int {
	fs := flag.NewFlagSet("check", flag.ExitOnError)
	prop := fs.String("prop", "", "property id")
	tier := fs.String("tier", "", "quick|thorough")
	writeLock := fs.Bool("write-lock", false, "print lock lines for this property instead of checking against the lock")
	fs.Parse(args)
	if *prop == "" {
		fmt.Fprintln(os.Stderr, "check: --prop required")
		return 2
	}
	if *tier == "" {
		*tier = os.Getenv("VERIF_TIER")
	}
	if *tier != "thorough" {
		*tier = "quick"
	}
	seed, _ := strconv.Atoi(os.Getenv("VERIF_SEED"))
	t0 := time.Now()
	p, err := loadAll(*prop)
	if err != nil {
		fmt.Fprintf(os.Stderr, "evyvc: cannot load /repo: %v\n", err)
		// a tree that no longer loads cannot satisfy anything that was proved about it
		rp := writeReplay(*prop, "load", violation{Obligation: "load", Reason: "the code under contract no longer loads/type-checks: " + err.Error(), Status: "error"})
		fmt.Printf("VIOLATION property=%s replay=%s no-failing-input-found\n", *prop, rp)
		return 1
	}
	loadSecs := time.Since(t0).Seconds()
	cs := contractsFor(p, *prop)
	if len(cs) == 0 {
		fmt.Fprintf(os.Stderr, "evyvc: no contracts serve %s\n", *prop)
		return 2
	}
	var all []*Obligation
	var fev []funcEvidence
	var results []*FuncResult
	assume := map[string]bool{}
	for _, c := range cs {
		r := verifyFunc(p, c, *prop)
		results = append(results, r)
		all = append(all, r.Obls...)
		for _, a := range r.Assumptions {
			assume[a] = true
		}
	}
	genSecs := time.Since(t0).Seconds() - loadSecs
	work := filepath.Join(outDir(), "work", *prop)
	os.RemoveAll(work)
	// obligations recorded as known findings are expected to fail: they get the short stages only (if one of them
	// is discharged there the finding is gone and no KNOWN-FINDING line is printed)
	if kfs, _ := loadKnownFindings(); len(kfs) > 0 {
		for _, o := range all {
			for _, kf := range kfs {
				if kf.Obligation == o.Name {
					o.Short = true
				}
			}
		}
	}
	discharge(all, work, *tier, 16)
	// obligations no solver decided within the quick budget get one retry with a larger one before
	// anything is reported (a time-out is not a counterexample)
	var retry []*Obligation
	knownEarly, _ := loadKnownFindings()
	for _, o := range all {
		isKF := false
		for _, kf := range knownEarly {
			if kf.Obligation == o.Name {
				isKF = true
			}
		}
		if o.Script != "" && !o.Cover && !o.Must && !isKF && o.Status != "unsat" && o.Status != "sat" {
			retry = append(retry, o)
		}
	}
	if len(retry) > 0 && len(retry) <= 120 && *tier == "quick" && os.Getenv("EVYVC_FAST") == "" {
		discharge(retry, work, "retry", 5)
	}
	aggs := aggregate(all)
	known, _ := loadKnownFindings()
	isKnown := func(name string) *knownFinding {
		for i := range known {
			if known[i].Prop == *prop && known[i].Obligation == name {
				return &known[i]
			}
		}
		return nil
	}
	lock := loadLock()
	generated := map[string]bool{}
	nObl, nDis, nKnown := 0, 0, 0
	var viols []violation
	var knownLines []string
	engineErr := ""
	solverSecs := 0.0
	solverWins := map[string]int{}
	var samples []map[string]any
	reach := map[string]int{}
	coverStat := map[string]int{}
	nCanary := 0
	for _, a := range aggs {
		generated[a.Name] = true
		solverSecs += a.Secs
		if a.Must {
			nCanary++
		}
		if a.Cover {
			kind := "cover-requires"
			if strings.Contains(a.Name, "cover-return") {
				kind = "cover-return"
			}
			coverStat[kind+":"+a.Status]++
			if strings.Contains(a.Name, "cover-return") {
				if a.Status == "sat" {
					reach[a.Func]++
				}
				continue
			}
			if a.Status == "unsat" {
				viols = append(viols, violation{Obligation: a.Name, Kind: "vacuity", Clause: a.Text, Status: "unsat", Reason: "the preconditions and invariants assumed at entry contradict each other in the current code: every obligation of this function holds vacuously, nothing is proved"})
			}
			continue
		}
		if a.Must {
			if a.Status == "unsat" {
				viols = append(viols, violation{Obligation: a.Name, Kind: "mustfail", Clause: a.Text, Status: "unsat", Reason: "a deliberately false canary clause is now provable: the behaviour changed or the obligation became vacuous"})
			}
			continue
		}
		nObl++
		solverWins[a.Solver]++
		if len(samples) < 12 && a.Kind != "nil" {
			samples = append(samples, map[string]any{"obligation": a.Name, "kind": a.Kind, "clause": a.Text, "instances": a.N, "status": a.Status, "solver": a.Solver, "solver_s": round2(a.Secs)})
		}
		if a.Status == "unsat" {
			nDis++
			continue
		}
		v := violation{Obligation: a.Name, Kind: a.Kind, Clause: a.Text, Status: a.Status, Pos: a.Pos}
		for _, o := range a.Inst {
			if o.Status != "unsat" {
				v.Solvers = o.Output
				v.Model = o.Model
				v.Path = o.Path
				break
			}
		}
		if a.Status == "sat" {
			v.Reason = "the verifier found a counterexample to this obligation (model attached)"
		} else {
			v.Reason = "no solver could discharge this obligation within the time limit (it is discharged on the unchanged tree)"
		}
		if kf := isKnown(a.Name); kf != nil {
			nKnown++
			knownLines = append(knownLines, fmt.Sprintf("KNOWN-FINDING: property=%s %s %s", *prop, a.Name, kf.What))
			continue
		}
		viols = append(viols, v)
	}
	for _, r := range results {
		fe := funcEvidence{Function: r.Key, Ints: r.Ints, Paths: r.Paths, Error: r.Err}
		names := map[string]bool{}
		for _, o := range r.Obls {
			if !o.Cover && !o.Must {
				names[o.Name] = true
				fe.Instances++
				fe.SolverSecs += o.Secs
			}
		}
		fe.Obligations = len(names)
		fe.SolverSecs = round2(fe.SolverSecs)
		fev = append(fev, fe)
		if r.Err != "" {
			name := r.Key + "/translate"
			generated[name] = true
			if kf := isKnown(name); kf != nil {
				nKnown++
				knownLines = append(knownLines, fmt.Sprintf("KNOWN-FINDING: property=%s %s %s", *prop, name, kf.What))
				continue
			}
			viols = append(viols, violation{Obligation: name, Kind: "translate", Status: "error", Reason: "the function under contract can no longer be translated, so its obligations cannot be discharged: " + r.Err})
		} else if reach[r.Key] == 0 && unsatReturns(aggs, r.Key) == r.Returns && r.Returns > 0 {
			viols = append(viols, violation{Obligation: r.Key + "/cover-return", Kind: "vacuity", Status: "unsat", Reason: "no return of the function is reachable under its contract in the current code (it always panics, never terminates, or its assumptions contradict the code): its postconditions hold vacuously, nothing is proved"})
		}
	}
	for _, ov := range p.checkOwnership() {
		generated["ownership"] = true
		viols = append(viols, violation{Obligation: "ownership", Kind: "ownership", Status: "error", Reason: "the ownership discipline assumed by `//@ owned` no longer holds: " + ov})
	}
	if *writeLock {
		var names []string
		for n := range generated {
			if !strings.Contains(n, "/cover-") {
				names = append(names, n)
			}
		}
		sort.Strings(names)
		for _, n := range names {
			fmt.Printf("%s %s\n", *prop, n)
		}
		return 0
	}
	// The lock is compared at the granularity of contract clauses: conjunct ordinals (".3") and the ordinals of
	// safety sites (nil#7, bounds#2, ...) shift under harmless edits of a function body, so a locked safety site only
	// requires that its function still generates obligations, and a locked clause that it is still generated in
	// some form. What the lock catches is code under contract that was removed, renamed or restructured so that a
	// clause no longer applies.
	genClause := map[string]bool{}
	genFunc := map[string]bool{}
	for n := range generated {
		genClause[lockClause(n)] = true
		if i := strings.Index(n, "/"); i >= 0 {
			genFunc[n[:i]] = true
		}
	}
	for _, n := range lock[*prop] {
		ok := generated[n] || genClause[lockClause(n)]
		if !ok && isSafetySite(n) {
			if i := strings.Index(n, "/"); i >= 0 {
				ok = genFunc[n[:i]]
			}
		}
		if !ok {
			if isKnown(n) != nil {
				continue
			}
			viols = append(viols, violation{Obligation: n, Kind: "missing", Status: "missing", Reason: "this obligation is generated and discharged on the unchanged tree but is no longer generated (code under contract removed or restructured so that the contract no longer applies)"})
		}
	}
	wall := time.Since(t0).Seconds()
	// evidence
	var assumptions []string
	for _, a := range sortedStrings(assume) {
		assumptions = append(assumptions, a)
	}
	assumptions = append(assumptions, p.specs.Assumes...)
	assumptions = append(assumptions,
		"machine integers are mathematical in 'ints math' functions (no overflow obligations unless opt overflow); slice capacities assumed <= 2^48",
		"x/tools go/packages + go/ssa front end preserves Go semantics; the VC generator (evyvc) and its memory model are trusted",
		"termination is proved only for loops with a decreases clause; recursion is partial correctness",
		"goroutines, channels, select, recover, unsafe and cgo are outside the translated subset (none occurs in the functions under contract)")
	trusted := []string{"x/tools v0.29.0 go/ssa", "evyvc VC generator (this repository)", "z3 4.8.12 / z3 5.1.0 / cvc5 1.0", "trusted library contracts listed under assumptions"}
	ev := map[string]any{
		"property_id": *prop,
		"tier":        *tier,
		"seed":        seed,
		"level":       "proof",
		"wall_s":      round2(wall),
		"violations":  len(viols),
		"assumptions": assumptions,
		"coverage": map[string]any{
			"obligations":              nObl - nKnown,
			"discharged":               nDis,
			"known_findings":           nKnown,
			"obligation_instances":     len(all),
			"checker_cmd":              fmt.Sprintf("bin/evyvc check --prop %s --tier %s", *prop, *tier),
			"trusted_base":             trusted,
			"functions_under_contract": fev,
			"solver_wins":              solverWins,
			"solver_cpu_s":             round2(solverSecs),
			"load_s":                   round2(loadSecs),
			"vcgen_s":                  round2(genSecs),
			"samples":                  samples,
			"slowest_instances":        slowest(all, 12),
			"back_ends":                []string{"z3-new 5.1.0", "cvc5 1.0", "z3 4.8.12 (raced per obligation)"},
			"contract_files":           p.specs.Files,
			"vacuity": fmt.Sprintf("%d mustfail canaries (clauses that are false on purpose), none discharged; precondition covers: %d satisfiable, %d undecided within the cover budget (1 s quick, 20 s thorough), %d contradictory (a contradictory one is reported as a violation); return-path covers: %d reachable, %d undecided, %d unreachable under the contract (listed by path in the run's output); no function has all its returns unreachable; every name in obligations.lock was generated",
				nCanary, coverStat["cover-requires:sat"], coverStat["cover-requires:unknown"], coverStat["cover-requires:unsat"], coverStat["cover-return:sat"], coverStat["cover-return:unknown"], coverStat["cover-return:unsat"]),
			"extraction": "SSA built by x/tools from /repo's working tree on this run (tags: verif); nothing hand-transcribed",
		},
	}
	os.MkdirAll(filepath.Join(outDir(), "evidence"), 0o755)
	b, _ := json.MarshalIndent(ev, "", " ")
	os.WriteFile(filepath.Join(outDir(), "evidence", *prop+".json"), b, 0o644)
	for _, l := range knownLines {
		fmt.Println(l)
	}
	if engineErr != "" {
		fmt.Fprint(os.Stderr, "ENGINE-ERROR:\n"+engineErr)
		return 2
	}
	fmt.Printf("%s: %d functions under contract, %d obligations, %d discharged, %d known findings, %d violations, %.1fs\n", *prop, len(cs), nObl, nDis, nKnown, len(viols), wall)
	if len(viols) == 0 {
		return 0
	}
	for _, v := range viols {
		rp := writeReplay(*prop, v.Obligation, v)
		suffix := " no-failing-input-found"
		if v.Confirmed {
			suffix = ""
		}
		fmt.Printf("failed obligation: %s [%s] %s\n", v.Obligation, v.Status, v.Clause)
		fmt.Printf("VIOLATION property=%s replay=%s%s\n", *prop, rp, suffix)
	}
	return 1
}

func round2(f float64) float64 { return float64(int(f*100+0.5)) / 100 }

func writeReplay(prop, name string, v violation) string {
	dir := filepath.Join(outDir(), "replays")
	os.MkdirAll(dir, 0o755)
	path := filepath.Join(dir, prop+"-"+safeName(name)+".json")
	m := map[string]any{"property": prop, "failed_obligation": v.Obligation, "kind": v.Kind, "clause": v.Clause, "status": v.Status, "reason": v.Reason, "position": v.Pos, "path": v.Path, "solver_output": v.Solvers, "model": v.Model, "confirmed_on_real_code": v.Confirmed, "replay": v.Replay}
	b, _ := json.MarshalIndent(m, "", " ")
	os.WriteFile(path, b, 0o644)
	return path
}

func unsatReturns(aggs []*Agg, fn string) int {
	n := 0
	for _, a := range aggs {
		if a.Func == fn && a.Cover && strings.Contains(a.Name, "cover-return") && a.Status == "unsat" {
			n++
		}
	}
	return n
}

// outDir: where work files, evidence and replays go (EVYVC_OUT redirects them, used by the seeded-change runner).
func outDir() string {
	if d := os.Getenv("EVYVC_OUT"); d != "" {
		return d
	}
	return verifDir
}

// slowest lists the obligation instances that took longest (headroom against the per-solver budget).
func slowest(all []*Obligation, n int) []map[string]any {
	var os2 []*Obligation
	for _, o := range all {
		if o.Script != "" && !o.Cover && !o.Must && !o.Short {
			os2 = append(os2, o)
		}
	}
	sort.Slice(os2, func(i, j int) bool { return os2[i].Secs > os2[j].Secs })
	var out []map[string]any
	for i, o := range os2 {
		if i >= n {
			break
		}
		out = append(out, map[string]any{"obligation": o.Name, "path": o.Path, "seconds": round2(o.Secs), "status": o.Status, "solver": o.Solver})
	}
	return out
}

// lockClause strips the conjunct ordinal from an obligation name ("f/ensures#label.3" -> "f/ensures#label").
func lockClause(n string) string {
	// call-site ordinals ("pre:callee@3#label") shift when a call is added or removed
	if j := strings.Index(n, "@"); j >= 0 {
		k := j + 1
		for k < len(n) && n[k] >= '0' && n[k] <= '9' {
			k++
		}
		if k > j+1 {
			n = n[:j] + n[k:]
		}
	}
	i := strings.LastIndex(n, ".")
	if i < 0 || i < strings.LastIndex(n, "#") || i+1 >= len(n) {
		return n
	}
	for _, c := range n[i+1:] {
		if c < '0' || c > '9' {
			return n
		}
	}
	return n[:i]
}

// isSafetySite: obligations named by the ordinal of a site in the function body rather than by a contract clause.
func isSafetySite(n string) bool {
	i := strings.Index(n, "/")
	if i < 0 {
		return false
	}
	k := n[i+1:]
	if j := strings.LastIndex(k, ":"); j >= 0 && !strings.HasPrefix(k, "pre:") && !strings.HasPrefix(k, "nil-recv:") && !strings.HasPrefix(k, "propagate") {
		k = k[j+1:] // inlined callee prefix "callee:nil#3"
	}
	for _, p := range []string{"nil#", "bounds#", "typeassert#", "make#", "unreachable#", "frame#", "typeinv-", "div#", "slice#", "nil-recv:", "shift#", "conv#", "yield:", "propagate"} {
		if strings.HasPrefix(k, p) {
			return true
		}
	}
	return false
}
