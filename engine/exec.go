package main

import (
	"fmt"
	"go/token"
	"go/types"
	"os"
	"regexp"
	"sort"
	"strings"

	"golang.org/x/tools/go/ssa"
)

// Obligation is one proof obligation instance (one path, one clause / safety site).
type Obligation struct {
	Name    string // pkg.func/kind#n
	Kind    string
	Props   []string
	Text    string // human-readable clause or site
	Script  string // full SMT-LIB query (sat = violated)
	Sliced  string // same query with unrelated quantified assumptions dropped (unsat here implies unsat of Script)
	Path    int
	Trivial bool // goal simplified to true syntactically
	Must    bool // mustfail: expected NOT to be discharged
	Cover   bool // cover: expected to be sat
	Short   bool // expected to fail (known finding): only the short solving stages are spent on it
	Func    string
	Pos     string
	// results
	Status string // unsat sat unknown
	Solver string
	Secs   float64
	Model  string
	Output string
}

type Frame struct {
	fn       *ssa.Function
	vals     map[ssa.Value]Val
	regs     map[*ssa.Alloc]Val
	defers   []*ssa.Defer
	dargs    [][]Val
	iters    map[*ssa.Range]Term // visited-set / position of range iterators
	depth    int
	loopIn   map[int]bool // loops (header index) whose head state this path is inside of
	variants map[int]Term
	heads    map[int]*State
	headFr   *Frame
}

func (fr *Frame) clone() *Frame {
	n := &Frame{fn: fr.fn, depth: fr.depth}
	n.vals = make(map[ssa.Value]Val, len(fr.vals))
	for k, v := range fr.vals {
		n.vals[k] = v
	}
	n.regs = make(map[*ssa.Alloc]Val, len(fr.regs))
	for k, v := range fr.regs {
		n.regs[k] = v
	}
	n.defers = append([]*ssa.Defer(nil), fr.defers...)
	n.dargs = append([][]Val(nil), fr.dargs...)
	n.iters = make(map[*ssa.Range]Term, len(fr.iters))
	for k, v := range fr.iters {
		n.iters[k] = v
	}
	n.variants = make(map[int]Term, len(fr.variants))
	for k, v := range fr.variants {
		n.variants[k] = v
	}
	n.heads = fr.heads
	n.headFr = fr.headFr
	n.loopIn = make(map[int]bool, len(fr.loopIn))
	for k, v := range fr.loopIn {
		n.loopIn[k] = v
	}
	return n
}

// Exec verifies one function.
type Exec struct {
	logID       int
	noMerge     bool // without opt merge: never if-convert (path splitting only)
	prog        *Program
	fn          *ssa.Function
	c           *Contract
	prop        string // property filter ("" = all)
	decls       *Decls
	nsym        int
	nepoch      int
	bv          bool
	strLits     map[string]Term
	strOrder    []string
	classes     map[string]classInfo
	closures    map[string]Clo
	obls        []*Obligation
	paths       int
	maxPaths    int
	entry       *State
	entryFr     *Frame
	params      map[string]Val
	loops       map[*ssa.Function]*loopInfo
	ordinals    map[string]int
	assumptions map[string]bool
	retCount    int
	own         map[string]string // map reference term -> owning field (owned fields have their own heap classes)
	recFuncs    map[string]*recFunc
	symCache    map[string][]string
	byCall      bool
	stores      map[string]storeInfo
	freshRefs   map[string]bool
	boundOf     map[string]int
	lowerOf     map[string]int // reference term -> allocation point it is known to be at or after (assumed fresh)
	alts        map[string][]Term
	nerr        int
	inlineStack []*ssa.Function
	pkgShort    string
	warn        []string
}

type outcome int

const (
	oReturn outcome = iota
	oPanic
)

type kont func(st *State, fr *Frame, res []Val)

func (x *Exec) note(s string) { x.assumptions[s] = true }

func (x *Exec) funcName() string { return x.c.Key }

func (x *Exec) nextOrd(kind string) int {
	x.ordinals[kind]++
	return x.ordinals[kind]
}

func posStr(fset *token.FileSet, p token.Pos) string {
	if !p.IsValid() {
		return ""
	}
	ps := fset.Position(p)
	f := ps.Filename
	if i := strings.Index(f, "/repo/"); i >= 0 {
		f = f[i+6:]
	}
	return fmt.Sprintf("%s:%d", f, ps.Line)
}

// siteName gives a stable name to a safety site: kind#ordinal-in-source-order within the function.
func (x *Exec) siteName(fn *ssa.Function, kind string, instr ssa.Instruction) string {
	key := fmt.Sprintf("%p", instr)
	sm := x.prog.siteNames(fn)
	if n, ok := sm[kind+key]; ok {
		return n
	}
	return kind + "#?"
}

// oblige records an obligation: under st.pc, goal must hold.
func (x *Exec) oblige(st *State, kind, name string, props []string, goal Term, text string, pos string) {
	x.obligeX(st, kind, name, props, goal, text, pos, false, false)
}

func (x *Exec) obligeX(st *State, kind, name string, props []string, goal Term, text string, pos string, must, cover bool) {
	if x.prop != "" && !hasProp(props, x.prop) {
		return
	}
	if !must && !cover && (kind == "invariant-init" || kind == "invariant-step" || kind == "pre" || kind == "typeinv") {
		if parts := topConjuncts(goal); len(parts) > 1 {
			for i, pt := range parts {
				x.obligeX(st, kind, fmt.Sprintf("%s.%d", name, i+1), props, pt, fmt.Sprintf("%s   [conjunct %d]", text, i+1), pos, false, false)
			}
			return
		}
	}
	o := &Obligation{Name: x.funcName() + "/" + name, Kind: kind, Props: props, Text: text, Path: x.paths, Func: x.funcName(), Pos: pos, Must: must, Cover: cover}
	if !cover && goal.S != "true" {
		gn := alphaNorm(goal.S)
		for _, a := range st.pc {
			if a.S == goal.S || (len(a.S) == len(goal.S) || strings.Contains(a.S, "!q")) && alphaNorm(a.S) == gn {
				goal = tTrue
				break
			}
		}
	}
	if goal.S == "true" && !cover {
		o.Trivial = true
		o.Status = "unsat"
		o.Solver = "syntactic"
		x.obls = append(x.obls, o)
		return
	}
	var sb strings.Builder
	sb.WriteString("; obligation " + o.Name + "  path " + fmt.Sprint(x.paths) + "\n; " + strings.ReplaceAll(text, "\n", " ") + "\n")
	sb.WriteString("%%PRELUDE%%\n")
	for _, d := range st.defs {
		sb.WriteString(d)
		sb.WriteString("\n")
	}
	for _, a := range st.pc {
		sb.WriteString("(assert " + a.S + ")\n")
	}
	if cover {
		// satisfiable path condition expected
	} else {
		sb.WriteString("(assert (not " + goal.S + "))\n")
	}
	sb.WriteString("(check-sat)\n")
	o.Script = sb.String()
	if !cover && !must {
		if keep, dropped := x.sliceAssumptions(st, goal); dropped > 0 {
			var sl strings.Builder
			sl.WriteString("; sliced: " + fmt.Sprint(dropped) + " quantified assumptions dropped\n%%PRELUDE%%\n")
			for _, d := range st.defs {
				sl.WriteString(d)
				sl.WriteString("\n")
			}
			for i, a := range st.pc {
				if keep[i] {
					sl.WriteString("(assert " + a.S + ")\n")
				}
			}
			sl.WriteString("(assert (not " + goal.S + "))\n(check-sat)\n")
			o.Sliced = sl.String()
		}
	}
	x.obls = append(x.obls, o)
}

// finalize fills in the declarations (known only after all paths ran).
func (x *Exec) finalize() {
	pre := prelude + x.prog.extraPrelude + x.decls.all() + x.strFacts()
	for _, o := range x.obls {
		if o.Script != "" {
			o.Script = strings.Replace(o.Script, "%%PRELUDE%%\n", pre, 1)
		}
		if o.Sliced != "" {
			o.Sliced = strings.Replace(o.Sliced, "%%PRELUDE%%\n", pre, 1)
		}
	}
}

// ---- running ----

func (x *Exec) val(fr *Frame, st *State, v ssa.Value) Val {
	switch v := v.(type) {
	case *ssa.Const:
		return x.constVal(v)
	case *ssa.Global:
		return Ptr{Prefix: "global:" + v.Pkg.Pkg.Name() + "." + v.Name(), Idx: nil, Elem: v.Type().(*types.Pointer).Elem(), GT: v.Type()}
	case *ssa.Function:
		return Clo{Fn: v, GT: v.Type()}
	case *ssa.Builtin:
		fail("builtin %s used as value", v.Name())
	}
	if r, ok := fr.vals[v]; ok {
		return r
	}
	if fv, ok := v.(*ssa.FreeVar); ok {
		fail("free variable %s not bound", fv.Name())
	}
	fail("no value for %s (%T) in %s", v.Name(), v, fr.fn.Name())
	return nil
}

func (x *Exec) runBlock(fr *Frame, st *State, b *ssa.BasicBlock, prev *ssa.BasicBlock, k kont) {
	if fr.depth == 0 {
		st.trace = append(st.trace, fmt.Sprintf("%d:%s@%s", b.Index, b.Comment, lineOf(x.prog.fset, b)))
	}
	li := x.loopInfoOf(fr.fn)
	if lp, ok := li.headers[b.Index]; ok {
		back := prev != nil && lp.blocks[prev.Index]
		if back {
			x.loopBackEdge(fr, st, lp, prev)
			return
		}
		x.loopEntry(fr, st, lp, prev)
		// loopEntry havocs and assumes the invariant, phis are set; continue into the block after phis
		x.runInstrs(fr, st, b, x.firstNonPhi(b), k)
		return
	}
	// phis
	if prev != nil {
		var newVals []Val
		var phis []*ssa.Phi
		for _, ins := range b.Instrs {
			phi, ok := ins.(*ssa.Phi)
			if !ok {
				break
			}
			idx := -1
			for i, p := range b.Preds {
				if p == prev {
					idx = i
					break
				}
			}
			newVals = append(newVals, x.val(fr, st, phi.Edges[idx]))
			phis = append(phis, phi)
		}
		for i, phi := range phis {
			fr.vals[phi] = newVals[i]
		}
	}
	x.runInstrs(fr, st, b, x.firstNonPhi(b), k)
}

func (x *Exec) firstNonPhi(b *ssa.BasicBlock) int {
	for i, ins := range b.Instrs {
		if _, ok := ins.(*ssa.Phi); !ok {
			return i
		}
	}
	return len(b.Instrs)
}

func (x *Exec) runInstrs(fr *Frame, st *State, b *ssa.BasicBlock, i int, k kont) {
	for ; i < len(b.Instrs); i++ {
		ins := b.Instrs[i]
		switch ins := ins.(type) {
		case *ssa.DebugRef:
			continue
		case *ssa.If:
			c := x.val(fr, st, ins.Cond).(Sc).T
			tb, fb := b.Succs[0], b.Succs[1]
			if c.S == "true" {
				x.runBlock(fr, st, tb, b, k)
				return
			}
			if c.S == "false" {
				x.runBlock(fr, st, fb, b, k)
				return
			}
			if !x.noMerge {
				if J := x.regionJoin(fr, b); J != nil {
					if mfr, mst, ok := x.tryRegion(fr, st, b, J, c, ins.Cond); ok {
						if mfr.depth == 0 {
							mst.trace = append(mst.trace, fmt.Sprintf("%d:%s@%s", J.Index, J.Comment, lineOf(x.prog.fset, J)))
						}
						x.runInstrs(mfr, mst, J, x.firstNonPhi(J), k)
						return
					}
				}
			}
			st2, fr2 := st.clone(), fr.clone()
			st.pc = append(st.pc, c)
			x.refineTypeAssert(fr, st, ins.Cond)
			x.runBlock(fr, st, tb, b, k)
			st2.pc = append(st2.pc, mkNot(c))
			x.runBlock(fr2, st2, fb, b, k)
			return
		case *ssa.Jump:
			x.runBlock(fr, st, b.Succs[0], b, k)
			return
		case *ssa.Return:
			var res []Val
			for _, r := range ins.Results {
				res = append(res, x.val(fr, st, r))
			}
			k(st, fr, res)
			return
		case *ssa.Panic:
			x.panicSite(fr, st, ins)
			return
		case *ssa.RunDefers:
			x.runDefers(fr, st, func(st *State, fr *Frame) { x.runInstrs(fr, st, b, i+1, k) })
			return
		case *ssa.Call:
			idx := i
			x.call(fr, st, ins, func(st *State, fr *Frame, res []Val) {
				x.bindCallResult(fr, ins, res)
				x.runInstrs(fr, st, b, idx+1, k)
			})
			return
		default:
			x.step(fr, st, ins)
		}
	}
	fail("block %d of %s fell off the end", b.Index, fr.fn.Name())
}

func (x *Exec) bindCallResult(fr *Frame, ins *ssa.Call, res []Val) {
	switch len(res) {
	case 0:
	case 1:
		if _, isTup := ins.Type().(*types.Tuple); isTup {
			fr.vals[ins] = Tup{res}
		} else {
			fr.vals[ins] = res[0]
		}
	default:
		fr.vals[ins] = Tup{res}
	}
}

func (x *Exec) panicSite(fr *Frame, st *State, ins *ssa.Panic) {
	if fr.depth == 0 && x.c.PanicOK {
		return
	}
	msg := ""
	if mi, ok := ins.X.(*ssa.MakeInterface); ok {
		if c, ok := mi.X.(*ssa.Const); ok && c.Value != nil {
			msg = c.Value.ExactString()
		}
	}
	name := x.siteName(fr.fn, "unreachable", ins)
	if fr.depth > 0 {
		name = fr.fn.Name() + ":" + name
	}
	x.oblige(st, "unreachable", name, x.safetyProps(), tFalse, "explicit panic is unreachable: "+msg, posStr(x.prog.fset, ins.Pos()))
}

// nonEscaping reports whether an Alloc is only used by direct loads and stores.
func nonEscaping(a *ssa.Alloc) bool {
	if _, isArr := a.Type().(*types.Pointer).Elem().Underlying().(*types.Array); isArr {
		return false
	}
	for _, r := range *a.Referrers() {
		switch r := r.(type) {
		case *ssa.Store:
			if r.Val == a {
				return false
			}
		case *ssa.UnOp:
			if r.Op != token.MUL {
				return false
			}
		case *ssa.DebugRef:
		default:
			return false
		}
	}
	return true
}

func (x *Exec) nilCheck(fr *Frame, st *State, v Val, ins ssa.Instruction, what string) {
	g := x.nonNil(v)
	if g.S == "true" {
		return
	}
	name := x.siteName(fr.fn, "nil", ins)
	if fr.depth > 0 {
		name = fr.fn.Name() + ":" + name
	}
	x.oblige(st, "nil", name, x.safetyProps(), g, "nil dereference: "+what, posStr(x.prog.fset, ins.Pos()))
	st.assume(g)
}

func (x *Exec) step(fr *Frame, st *State, ins ssa.Instruction) {
	switch ins := ins.(type) {
	case *ssa.Alloc:
		et := ins.Type().(*types.Pointer).Elem()
		if nonEscaping(ins) {
			fr.regs[ins] = x.zeroVal(et)
			fr.vals[ins] = Ptr{Prefix: "reg", GT: ins.Type()}
			return
		}
		r := x.newRef(st, ins.Comment)
		p := Ptr{Prefix: objPrefix(et), Idx: []Term{r}, Elem: et, GT: ins.Type(), Obj: true}
		if at, ok := et.Underlying().(*types.Array); ok {
			x.initArray(st, r, at.Elem())
		} else {
			x.store(st, p, x.zeroVal(et))
			x.markDirty(st, p)
		}
		fr.vals[ins] = Sc{r, ins.Type()}
	case *ssa.Store:
		if a, ok := ins.Addr.(*ssa.Alloc); ok {
			if _, isReg := fr.regs[a]; isReg {
				fr.regs[a] = x.val(fr, st, ins.Val)
				return
			}
		}
		pv := x.val(fr, st, ins.Addr)
		x.nilCheck(fr, st, pv, ins, "store through "+ins.Addr.Name())
		p := x.asPtr(pv)
		v := x.val(fr, st, ins.Val)
		if c, ok := v.(Sc); ok && c.T.Sort == sInt {
			if _, isI := c.GT.Underlying().(*types.Basic); isI && c.GT.Underlying().(*types.Basic).Kind() == types.UntypedNil {
				v = x.zeroVal(p.Elem)
			}
		}
		x.store(st, p, v)
		x.noteStore(st, p, v)
		x.markDirty(st, p)
		if strings.HasPrefix(p.Prefix, "global:") && !strings.HasSuffix(fr.fn.Name(), "init") {
			x.globalStore(fr, st, ins, p)
		}
	case *ssa.UnOp:
		x.unop(fr, st, ins)
	case *ssa.BinOp:
		fr.vals[ins] = x.binop(fr, st, ins.Op, x.val(fr, st, ins.X), x.val(fr, st, ins.Y), ins.X.Type(), ins.Type(), ins)
	case *ssa.FieldAddr:
		pv := x.val(fr, st, ins.X)
		x.nilCheck(fr, st, pv, ins, "field address of "+ins.X.Name())
		p := x.asPtr(pv)
		stt := ins.X.Type().Underlying().(*types.Pointer).Elem().Underlying().(*types.Struct)
		x.assumeTypeInv(st, p)
		fr.vals[ins] = Ptr{Prefix: p.Prefix + "." + stt.Field(ins.Field).Name(), Idx: p.Idx, Elem: stt.Field(ins.Field).Type(), GT: ins.Type()}
	case *ssa.Field:
		s := x.val(fr, st, ins.X).(St)
		fr.vals[ins] = s.F[ins.Field]
	case *ssa.IndexAddr:
		xv := x.val(fr, st, ins.X)
		iv := x.mathInt(x.val(fr, st, ins.Index).(Sc).T)
		switch xv := xv.(type) {
		case Sl:
			et := xv.GT.Underlying().(*types.Slice).Elem()
			x.boundsCheck(fr, st, ins, iv, xv.Len)
			fr.vals[ins] = Ptr{Prefix: x.elemPrefix(xv.Base, et), Idx: []Term{xv.Base, x.def(st, "ix", app(sInt, "+", xv.Off, iv))}, Elem: et, GT: ins.Type()}
		default: // pointer to array
			x.nilCheck(fr, st, xv, ins, "index of array pointer")
			p := x.asPtr(xv)
			at := p.Elem.Underlying().(*types.Array)
			x.boundsCheck(fr, st, ins, iv, intLit(at.Len()))
			if p.Obj {
				fr.vals[ins] = Ptr{Prefix: "elem:" + typeStr(at.Elem()), Idx: []Term{p.Idx[0], iv}, Elem: at.Elem(), GT: ins.Type()}
			} else {
				fail("index of interior array %s", p.Prefix)
			}
		}
	case *ssa.Index:
		fail("Index on array value unsupported")
	case *ssa.Lookup:
		x.lookup(fr, st, ins)
	case *ssa.MapUpdate:
		m := x.val(fr, st, ins.Map).(Sc)
		x.nilCheck(fr, st, m, ins, "assignment to entry in nil map")
		x.mapUpdate(st, m, x.val(fr, st, ins.Key), x.val(fr, st, ins.Value))
		x.noteStore(st, Ptr{Idx: []Term{m.T}}, x.val(fr, st, ins.Value))
	case *ssa.MakeMap:
		r := x.newRef(st, "map")
		mt := ins.Type()
		if o := x.ownedTarget(ins); o != "" {
			x.own[r.S] = o
		}
		x.mapInit(st, Sc{r, mt})
		fr.vals[ins] = Sc{r, mt}
	case *ssa.MakeSlice:
		ln := x.val(fr, st, ins.Len).(Sc).T
		cp := x.val(fr, st, ins.Cap).(Sc).T
		name := x.siteName(fr.fn, "make", ins)
		x.oblige(st, "make", name, x.safetyProps(), mkAnd(app(sBool, "<=", intLit(0), ln), app(sBool, "<=", ln, cp), app(sBool, "<=", cp, bigIntLit("281474976710656"))), "make([]T, len, cap): 0 <= len <= cap <= 2^48", posStr(x.prog.fset, ins.Pos()))
		st.assume(mkAnd(app(sBool, "<=", intLit(0), ln), app(sBool, "<=", ln, cp)))
		r := x.newRef(st, "slice")
		et := ins.Type().Underlying().(*types.Slice).Elem()
		x.initArray(st, r, et)
		fr.vals[ins] = Sl{r, intLit(0), ln, cp, ins.Type()}
	case *ssa.MakeClosure:
		c := Clo{Fn: ins.Fn.(*ssa.Function), GT: ins.Type()}
		for _, b := range ins.Bindings {
			c.Bind = append(c.Bind, x.val(fr, st, b))
		}
		fr.vals[ins] = c
	case *ssa.MakeInterface:
		v := x.val(fr, st, ins.X)
		bt := x.def(st, "mi", x.box(st, v, ins.X.Type()))
		fr.vals[ins] = Sc{bt, ins.Type()}
		if pt, ok := ins.X.Type().(*types.Pointer); ok {
			if fld, ok := x.prog.specs.Unwraps[typeStr(pt.Elem())]; ok {
				// errors.Is looks through Unwrap: the boxed error wraps exactly the error in that field
				inner := x.load(st, Ptr{Prefix: typeStr(pt.Elem()) + "." + fld, Idx: []Term{x.scalarOf(v)}}, types.Universe.Lookup("error").Type()).(Sc)
				st.assume(x.wrapsOnly(bt, inner.T))
			}
		}
	case *ssa.ChangeInterface:
		fr.vals[ins] = Sc{x.val(fr, st, ins.X).(Sc).T, ins.Type()}
	case *ssa.ChangeType:
		fr.vals[ins] = retype(x.val(fr, st, ins.X), ins.Type())
	case *ssa.Convert:
		fr.vals[ins] = x.convert(fr, st, ins)
	case *ssa.TypeAssert:
		x.typeAssert(fr, st, ins)
	case *ssa.Extract:
		t := x.val(fr, st, ins.Tuple).(Tup)
		fr.vals[ins] = t.E[ins.Index]
	case *ssa.Slice:
		x.sliceOp(fr, st, ins)
	case *ssa.Range:
		x.rangeInit(fr, st, ins)
	case *ssa.Next:
		x.next(fr, st, ins)
	case *ssa.Defer:
		var args []Val
		for _, a := range ins.Call.Args {
			args = append(args, x.val(fr, st, a))
		}
		if !ins.Call.IsInvoke() {
			if _, ok := ins.Call.Value.(*ssa.Function); !ok {
				// closure value: evaluate now
				args = append([]Val{x.val(fr, st, ins.Call.Value)}, args...)
			}
		}
		fr.defers = append(fr.defers, ins)
		fr.dargs = append(fr.dargs, args)
	case *ssa.Phi:
		fail("phi in the middle of block")
	default:
		fail("unsupported instruction %T: %s", ins, ins)
	}
}

func retype(v Val, t types.Type) Val {
	switch v := v.(type) {
	case Sc:
		return Sc{v.T, t}
	case Sl:
		return Sl{v.Base, v.Off, v.Len, v.Cap, t}
	case St:
		return St{v.F, t}
	case Clo:
		return Clo{v.Fn, v.Bind, t}
	case Ptr:
		v.GT = t
		return v
	}
	return v
}

func (x *Exec) initArray(st *State, base Term, et types.Type) {
	// zero-initialise the backing store at base
	x.forLeaves("elem:"+typeStr(et), et, func(class string, t types.Type, isSlicePart bool) {
		srt := sInt
		var z Term
		if isSlicePart {
			z = intLit(0)
		} else {
			srt = x.sortOf(t)
			if srt == sBV64 {
				srt = sInt
			}
			z = x.zeroTermSort(t, srt)
		}
		a := x.classTerm(st, class, 2, srt)
		inner := Term{fmt.Sprintf("((as const %s) %s)", arr(sInt, srt), z.S), arr(sInt, srt)}
		if srt == sStr {
			// cvc5 rejects constant arrays over uninterpreted values: use an axiomatised constant
			inner = Term{"zero_str_array", arr(sInt, sStr)}
			x.decls.add("zero_str_array", fmt.Sprintf("(declare-const zero_str_array (Array Int Str))\n(assert (forall ((i Int)) (! (= (select zero_str_array i) %s) :pattern ((select zero_str_array i)))))", z.S))
		}
		x.setClassStore(st, class, a, base, inner)
	})
}

func (x *Exec) zeroTermSort(t types.Type, srt string) Term {
	if srt == sInt {
		return intLit(0)
	}
	return x.zeroTerm(t)
}

// forLeaves enumerates the scalar leaf classes of a location of type t with the given prefix.
func (x *Exec) forLeaves(prefix string, t types.Type, f func(class string, t types.Type, slicePart bool)) {
	switch u := t.Underlying().(type) {
	case *types.Slice:
		for _, s := range []string{"#base", "#off", "#len", "#cap"} {
			f(prefix+s, t, true)
		}
	case *types.Struct:
		for i := 0; i < u.NumFields(); i++ {
			x.forLeaves(prefix+"."+u.Field(i).Name(), u.Field(i).Type(), f)
		}
	case *types.Array:
		fail("nested array type %s", t)
	default:
		f(prefix, t, false)
	}
}

func (x *Exec) boundsCheck(fr *Frame, st *State, ins ssa.Instruction, idx, ln Term) {
	name := x.siteName(fr.fn, "bounds", ins)
	if fr.depth > 0 {
		name = fr.fn.Name() + ":" + name
	}
	g := mkAnd(app(sBool, "<=", intLit(0), idx), app(sBool, "<", idx, ln))
	x.oblige(st, "bounds", name, x.safetyProps(), g, "index in range", posStr(x.prog.fset, ins.Pos()))
	st.assume(g)
}

func (x *Exec) unop(fr *Frame, st *State, ins *ssa.UnOp) {
	switch ins.Op {
	case token.MUL:
		if a, ok := ins.X.(*ssa.Alloc); ok {
			if v, isReg := fr.regs[a]; isReg {
				fr.vals[ins] = v
				return
			}
		}
		pv := x.val(fr, st, ins.X)
		x.nilCheck(fr, st, pv, ins, "load through "+ins.X.Name())
		p := x.asPtr(pv)
		if p.Obj {
			x.assumeTypeInv(st, p)
		}
		v := x.load(st, p, ins.Type())
		x.assumeLoaded(st, v)
		fr.vals[ins] = v
	case token.NOT:
		fr.vals[ins] = Sc{mkNot(x.val(fr, st, ins.X).(Sc).T), ins.Type()}
	case token.SUB:
		v := x.val(fr, st, ins.X).(Sc)
		switch v.T.Sort {
		case sF64:
			fr.vals[ins] = Sc{app(sF64, "fp.neg", v.T), ins.Type()}
		case sBV64:
			fr.vals[ins] = Sc{app(sBV64, "bvneg", v.T), ins.Type()}
		default:
			fr.vals[ins] = Sc{app(sInt, "-", v.T), ins.Type()}
		}
	default:
		fail("unsupported unary op %s", ins.Op)
	}
}

// assumeLoaded adds validity facts about a value read from the heap.
func (x *Exec) assumeLoaded(st *State, v Val) {
	x.assumeValid(st, v)
}

var fpOps = map[token.Token]string{token.ADD: "fp.add RNE", token.SUB: "fp.sub RNE", token.MUL: "fp.mul RNE", token.QUO: "fp.div RNE"}
var fpCmp = map[token.Token]string{token.LSS: "fp.lt", token.LEQ: "fp.leq", token.GTR: "fp.gt", token.GEQ: "fp.geq", token.EQL: "fp.eq"}
var intCmp = map[token.Token]string{token.LSS: "<", token.LEQ: "<=", token.GTR: ">", token.GEQ: ">="}
var bvCmp = map[token.Token]string{token.LSS: "bvslt", token.LEQ: "bvsle", token.GTR: "bvsgt", token.GEQ: "bvsge"}
var bvOps = map[token.Token]string{token.ADD: "bvadd", token.SUB: "bvsub", token.MUL: "bvmul", token.AND: "bvand", token.OR: "bvor", token.XOR: "bvxor"}

func (x *Exec) binop(fr *Frame, st *State, op token.Token, a, b Val, opdType, resType types.Type, ins ssa.Instruction) Val {
	// slices/pointers compared with nil
	if sl, ok := a.(Sl); ok {
		eq := mkEq(sl.Base, intLit(0))
		if op == token.NEQ {
			eq = mkNot(eq)
		}
		return Sc{eq, resType}
	}
	if sl, ok := b.(Sl); ok {
		eq := mkEq(sl.Base, intLit(0))
		if op == token.NEQ {
			eq = mkNot(eq)
		}
		return Sc{eq, resType}
	}
	if _, ok := a.(Clo); ok {
		return Sc{boolLit(op == token.NEQ), resType}
	}
	if pa, ok := a.(Ptr); ok {
		if pb, ok := b.(Ptr); ok && !(pa.Obj && pb.Obj) {
			fail("comparison of interior pointers")
		}
		if !pa.Obj {
			return Sc{boolLit(op == token.NEQ), resType}
		}
		a = Sc{pa.Idx[0], pa.GT}
	}
	if pb, ok := b.(Ptr); ok {
		if !pb.Obj {
			return Sc{boolLit(op == token.NEQ), resType}
		}
		b = Sc{pb.Idx[0], pb.GT}
	}
	if sa, ok := a.(St); ok {
		// struct equality: fieldwise
		sb := b.(St)
		parts := []Term{}
		ut := sa.GT.Underlying().(*types.Struct)
		for i := range sa.F {
			r := x.binop(fr, st, token.EQL, sa.F[i], sb.F[i], ut.Field(i).Type(), types.Typ[types.Bool], ins)
			parts = append(parts, r.(Sc).T)
		}
		eq := mkAnd(parts...)
		if op == token.NEQ {
			eq = mkNot(eq)
		}
		return Sc{eq, resType}
	}
	ta, tb := a.(Sc).T, b.(Sc).T
	// nil constant against interface
	if ta.Sort == sIface && tb.Sort == sInt {
		tb = tNilI
	}
	if tb.Sort == sIface && ta.Sort == sInt {
		ta = tNilI
	}
	switch ta.Sort {
	case sF64:
		if o, ok := fpOps[op]; ok {
			return Sc{x.def(st, "f", app(sF64, o, ta, tb)), resType}
		}
		if o, ok := fpCmp[op]; ok {
			return Sc{app(sBool, o, ta, tb), resType}
		}
		if op == token.NEQ {
			return Sc{mkNot(app(sBool, "fp.eq", ta, tb)), resType}
		}
	case sStr:
		switch op {
		case token.ADD:
			return Sc{x.strCat(st, ta, tb), resType}
		case token.EQL:
			return Sc{mkEq(ta, tb), resType}
		case token.NEQ:
			return Sc{mkNot(mkEq(ta, tb)), resType}
		case token.LSS:
			return Sc{app(sBool, "str.lt_", ta, tb), resType}
		case token.GTR:
			return Sc{app(sBool, "str.lt_", tb, ta), resType}
		case token.LEQ:
			return Sc{mkNot(app(sBool, "str.lt_", tb, ta)), resType}
		case token.GEQ:
			return Sc{mkNot(app(sBool, "str.lt_", ta, tb)), resType}
		}
	case sBool:
		switch op {
		case token.EQL:
			return Sc{mkEq(ta, tb), resType}
		case token.NEQ:
			return Sc{mkNot(mkEq(ta, tb)), resType}
		case token.AND:
			return Sc{mkAnd(ta, tb), resType}
		case token.OR:
			return Sc{mkOr(ta, tb), resType}
		}
	case sIface:
		switch op {
		case token.EQL:
			return Sc{mkEq(ta, tb), resType}
		case token.NEQ:
			return Sc{mkNot(mkEq(ta, tb)), resType}
		}
	case sBV64:
		if o, ok := bvOps[op]; ok {
			return Sc{x.def(st, "b", app(sBV64, o, ta, tb)), resType}
		}
		if o, ok := bvCmp[op]; ok {
			return Sc{app(sBool, o, ta, tb), resType}
		}
		switch op {
		case token.EQL:
			return Sc{mkEq(ta, tb), resType}
		case token.NEQ:
			return Sc{mkNot(mkEq(ta, tb)), resType}
		}
	case sInt:
		switch op {
		case token.ADD, token.SUB, token.MUL:
			o := map[token.Token]string{token.ADD: "+", token.SUB: "-", token.MUL: "*"}[op]
			if op == token.MUL {
				_, la := litVal(ta)
				_, lb := litVal(tb)
				if !la && !lb {
					// product of two unknowns: uninterpreted with the recurrence axioms (keeps queries linear)
					o = "imul_"
					x.note("products of two non-constant integers are axiomatised (commutative, a*0, a*(b+1), sign), not interpreted")
				}
			}
			r := x.def(st, "i", app(sInt, o, ta, tb))
			r = x.wrapInt(st, r, resType, fr, ins, op.String())
			return Sc{r, resType}
		case token.QUO, token.REM:
			name := x.siteName(fr.fn, "div", ins)
			x.oblige(st, "div", name, x.safetyProps(), mkNot(mkEq(tb, intLit(0))), "integer division by zero", posStr(x.prog.fset, ins.Pos()))
			st.assume(mkNot(mkEq(tb, intLit(0))))
			if op == token.QUO {
				return Sc{x.def(st, "i", app(sInt, "gdiv", ta, tb)), resType}
			}
			return Sc{x.def(st, "i", app(sInt, "gmod", ta, tb)), resType}
		case token.EQL:
			return Sc{mkEq(ta, tb), resType}
		case token.NEQ:
			return Sc{mkNot(mkEq(ta, tb)), resType}
		case token.SHL:
			if c, ok := constShift(tb); ok {
				r := x.def(st, "i", app(sInt, "*", ta, intLit(1<<c)))
				return Sc{x.wrapInt(st, r, resType, fr, ins, "<<"), resType}
			}
		case token.SHR:
			if c, ok := constShift(tb); ok {
				return Sc{x.def(st, "i", app(sInt, "div", ta, intLit(1<<c))), resType}
			}
		case token.AND:
			if c, ok := constShift(tb); ok && isMask(c) {
				return Sc{x.def(st, "i", app(sInt, "mod", ta, intLit(int64(c)+1))), resType}
			}
		}
		if o, ok := intCmp[op]; ok {
			return Sc{app(sBool, o, ta, tb), resType}
		}
		// uninterpreted bit operation
		fn := "bitop_" + strings.Trim(fmt.Sprintf("%q", op.String()), "\"")
		fn = quoteSym("bit" + op.String())
		x.decls.add(fn, fmt.Sprintf("(declare-fun %s (Int Int) Int)", fn))
		x.note("bit operation " + op.String() + " on mathematical integers is uninterpreted")
		return Sc{app(sInt, fn, ta, tb), resType}
	}
	fail("unsupported binop %s on %s", op, ta.Sort)
	return nil
}

func constShift(t Term) (uint, bool) {
	var n uint
	if _, err := fmt.Sscanf(t.S, "%d", &n); err == nil && fmt.Sprint(n) == t.S && n < 62 {
		return n, true
	}
	return 0, false
}

func isMask(c uint) bool { return (c+1)&c == 0 }

// wrapInt applies the wrap-around of narrow unsigned types; for other types the result is left mathematical
// (overflow of int/int64 is an unchecked assumption unless opt overflow is set).
func (x *Exec) wrapInt(st *State, r Term, t types.Type, fr *Frame, ins ssa.Instruction, op string) Term {
	b, ok := t.Underlying().(*types.Basic)
	if !ok {
		return r
	}
	switch b.Kind() {
	case types.Uint8:
		return x.def(st, "w", app(sInt, "mod", r, intLit(256)))
	case types.Uint16:
		return x.def(st, "w", app(sInt, "mod", r, intLit(65536)))
	case types.Uint32:
		return x.def(st, "w", app(sInt, "mod", r, intLit(4294967296)))
	case types.Int, types.Int64:
		if x.c.Opts["overflow"] != "" && fr.depth == 0 {
			name := x.siteName(fr.fn, "overflow", ins)
			g := mkAnd(app(sBool, "<=", bigIntLit("-9223372036854775808"), r), app(sBool, "<=", r, bigIntLit("9223372036854775807")))
			x.oblige(st, "overflow", name, x.safetyProps(), g, "no int overflow in "+op, posStr(x.prog.fset, ins.Pos()))
		}
	}
	return r
}

func (x *Exec) strCat(st *State, a, b Term) Term {
	r := x.def(st, "cat", app(sStr, "str.cat_", a, b))
	st.assume(mkEq(app(sInt, "str.len_", r), app(sInt, "+", app(sInt, "str.len_", a), app(sInt, "str.len_", b))))
	return r
}

func (x *Exec) convert(fr *Frame, st *State, ins *ssa.Convert) Val {
	v := x.val(fr, st, ins.X)
	from, to := ins.X.Type().Underlying(), ins.Type().Underlying()
	fb, fok := from.(*types.Basic)
	tb, tok := to.(*types.Basic)
	switch {
	case fok && tok && isIntKind(fb) && isIntKind(tb):
		t := v.(Sc).T
		if t.Sort == sBV64 {
			return Sc{t, ins.Type()}
		}
		switch tb.Kind() {
		case types.Uint8:
			return Sc{x.def(st, "cv", app(sInt, "mod", t, intLit(256))), ins.Type()}
		case types.Uint16:
			return Sc{x.def(st, "cv", app(sInt, "mod", t, intLit(65536))), ins.Type()}
		case types.Uint32:
			return Sc{x.def(st, "cv", app(sInt, "mod", t, intLit(4294967296))), ins.Type()}
		case types.Int32:
			if fb.Kind() != types.Uint8 && fb.Kind() != types.Uint16 && fb.Kind() != types.Int32 && fb.Kind() != types.Int8 && fb.Kind() != types.Int16 {
				x.note("narrowing conversion to int32/rune assumed in range")
			}
		}
		return Sc{t, ins.Type()}
	case fok && tok && isIntKind(fb) && tb.Info()&types.IsFloat != 0:
		t := v.(Sc).T
		if t.Sort == sBV64 {
			return Sc{x.def(st, "cv", app(sF64, "(_ to_fp 11 53) RNE", t)), ins.Type()}
		}
		return Sc{app(sF64, "i2f_", t), ins.Type()}
	case fok && tok && fb.Info()&types.IsFloat != 0 && isIntKind(tb):
		t := v.(Sc).T
		if x.bv {
			return Sc{x.def(st, "cv", app(sBV64, "(_ fp.to_sbv 64) RTZ", t)), ins.Type()}
		}
		return Sc{app(sInt, "f2i_", t), ins.Type()}
	case fok && tok && fb.Info()&types.IsFloat != 0 && tb.Info()&types.IsFloat != 0:
		return Sc{v.(Sc).T, ins.Type()}
	case fok && tok && fb.Info()&types.IsString != 0 && tb.Info()&types.IsString != 0:
		return Sc{v.(Sc).T, ins.Type()}
	case fok && tok && isIntKind(fb) && tb.Info()&types.IsString != 0:
		return Sc{app(sStr, "str.fromrune_", v.(Sc).T), ins.Type()}
	}
	// string <-> []rune / []byte
	if fok && fb.Info()&types.IsString != 0 {
		if sl, ok := to.(*types.Slice); ok {
			s := v.(Sc).T
			eb := sl.Elem().Underlying().(*types.Basic)
			r := x.newRef(st, "conv")
			var inner, ln Term
			if eb.Kind() == types.Int32 {
				inner = app(arr(sInt, sInt), "str.runes_", s)
				ln = app(sInt, "str.rlen_", s)
				st.assume(mkAnd(app(sBool, "<=", intLit(0), ln), app(sBool, "<=", ln, app(sInt, "str.len_", s))))
			} else {
				inner = app(arr(sInt, sInt), "str.bytes_", s)
				ln = app(sInt, "str.len_", s)
				st.assume(app(sBool, "<=", intLit(0), ln))
			}
			class := "elem:" + typeStr(sl.Elem())
			a := x.classTerm(st, class, 2, sInt)
			x.setClassStore(st, class, a, r, inner)
			ln = x.def(st, "len", ln)
			return Sl{r, intLit(0), ln, ln, ins.Type()}
		}
	}
	if tok && tb.Info()&types.IsString != 0 {
		if sl, ok := from.(*types.Slice); ok {
			s := v.(Sl)
			eb := sl.Elem().Underlying().(*types.Basic)
			class := "elem:" + typeStr(sl.Elem())
			a := x.classTerm(st, class, 2, sInt)
			inner := x.outerSelect(a, s.Base)
			fn := "str.frombytes_"
			if eb.Kind() == types.Int32 {
				fn = "str.fromrunes_"
			}
			r := x.def(st, "str", app(sStr, fn, inner, s.Off, s.Len))
			if eb.Kind() == types.Int32 {
				st.assume(mkEq(app(sInt, "str.rlen_", r), s.Len))
			} else {
				st.assume(mkEq(app(sInt, "str.len_", r), s.Len))
			}
			return Sc{r, ins.Type()}
		}
	}
	if _, ok := to.(*types.Pointer); ok {
		return retype(v, ins.Type())
	}
	if _, ok := to.(*types.Slice); ok {
		return retype(v, ins.Type())
	}
	fail("unsupported conversion %s -> %s", ins.X.Type(), ins.Type())
	return nil
}

func (x *Exec) typeAssert(fr *Frame, st *State, ins *ssa.TypeAssert) {
	it := x.val(fr, st, ins.X).(Sc).T
	if _, isIface := ins.AssertedType.Underlying().(*types.Interface); isIface {
		// assertion to an interface type: succeeds iff non-nil and implements (uninterpreted)
		fn := quoteSym("implements:" + typeStr(ins.AssertedType))
		// closed world: exactly the concrete types of the loaded packages that implement the interface
		var alts []Term
		tv := Term{S: "t", Sort: sInt}
		for _, t := range x.implementers(ins.AssertedType.Underlying().(*types.Interface)) {
			alts = append(alts, mkEq(tv, intLit(x.typeTag(t))))
		}
		body := tFalse
		if len(alts) > 0 {
			body = mkOr(alts...)
		}
		x.decls.add(fn, fmt.Sprintf("(define-fun %s ((t Int)) Bool %s)", fn, body.S))
		x.note("closed world: " + typeStr(ins.AssertedType) + " is implemented only by the types of the loaded packages of /repo")
		ok := mkAnd(mkNot(mkEq(it, tNilI)), app(sBool, fn, app(sInt, "tagof", it)))
		if types.Identical(ins.X.Type(), ins.AssertedType) {
			ok = mkNot(mkEq(it, tNilI)) // same interface type: only the nil check remains
		}
		if ins.CommaOk {
			fr.vals[ins] = Tup{[]Val{Sc{it, ins.AssertedType}, Sc{ok, types.Typ[types.Bool]}}}
		} else {
			name := x.siteName(fr.fn, "typeassert", ins)
			x.oblige(st, "typeassert", name, x.safetyProps(), ok, "type assertion to "+typeStr(ins.AssertedType), posStr(x.prog.fset, ins.Pos()))
			st.assume(ok)
			fr.vals[ins] = Sc{it, ins.AssertedType}
		}
		return
	}
	ok := x.hasTag(it, ins.AssertedType)
	var v Val
	switch ins.AssertedType.Underlying().(type) {
	case *types.Struct, *types.Slice, *types.Array:
		v = x.freshVal(st, "ta", ins.AssertedType)
	default:
		v = x.unbox(it, ins.AssertedType)
	}
	if ins.CommaOk {
		okT := x.def(st, "ok", ok)
		// on failure the value is the zero value
		if sc, isSc := v.(Sc); isSc {
			v = Sc{mkIte(okT, sc.T, x.zeroTerm(ins.AssertedType)), sc.GT}
		}
		fr.vals[ins] = Tup{[]Val{v, Sc{okT, types.Typ[types.Bool]}}}
		return
	}
	name := x.siteName(fr.fn, "typeassert", ins)
	if fr.depth > 0 {
		name = fr.fn.Name() + ":" + name
	}
	x.oblige(st, "typeassert", name, x.safetyProps(), ok, "type assertion "+ins.X.Name()+".("+typeStr(ins.AssertedType)+")", posStr(x.prog.fset, ins.Pos()))
	st.assume(ok)
	fr.vals[ins] = v
}

func (x *Exec) sliceOp(fr *Frame, st *State, ins *ssa.Slice) {
	xv := x.val(fr, st, ins.X)
	var lo, hi, mx *Term
	get := func(v ssa.Value) *Term {
		if v == nil {
			return nil
		}
		t := x.mathInt(x.val(fr, st, v).(Sc).T)
		return &t
	}
	lo, hi, mx = get(ins.Low), get(ins.High), get(ins.Max)
	name := x.siteName(fr.fn, "bounds", ins)
	if fr.depth > 0 {
		name = fr.fn.Name() + ":" + name
	}
	switch xv := xv.(type) {
	case Sl:
		l := intLit(0)
		if lo != nil {
			l = *lo
		}
		h := xv.Len
		if hi != nil {
			h = *hi
		}
		c := xv.Cap
		if mx != nil {
			c = *mx
		}
		g := mkAnd(app(sBool, "<=", intLit(0), l), app(sBool, "<=", l, h), app(sBool, "<=", h, c), app(sBool, "<=", c, xv.Cap))
		x.oblige(st, "bounds", name, x.safetyProps(), g, "slice bounds in range", posStr(x.prog.fset, ins.Pos()))
		st.assume(g)
		fr.vals[ins] = Sl{xv.Base, x.def(st, "so", app(sInt, "+", xv.Off, l)), x.def(st, "sl", app(sInt, "-", h, l)), x.def(st, "sc", app(sInt, "-", c, l)), ins.Type()}
	case Sc:
		if xv.T.Sort == sStr {
			ln := app(sInt, "str.len_", xv.T)
			l := intLit(0)
			if lo != nil {
				l = *lo
			}
			h := ln
			if hi != nil {
				h = *hi
			}
			g := mkAnd(app(sBool, "<=", intLit(0), l), app(sBool, "<=", l, h), app(sBool, "<=", h, ln))
			x.oblige(st, "bounds", name, x.safetyProps(), g, "string slice bounds in range", posStr(x.prog.fset, ins.Pos()))
			st.assume(g)
			r := x.def(st, "sub", app(sStr, "str.sub_", xv.T, l, h))
			st.assume(mkEq(app(sInt, "str.len_", r), app(sInt, "-", h, l)))
			fr.vals[ins] = Sc{r, ins.Type()}
			return
		}
		// pointer to array
		x.nilCheck(fr, st, xv, ins, "slice of array pointer")
		p := x.asPtr(xv)
		at := p.Elem.Underlying().(*types.Array)
		n := intLit(at.Len())
		l := intLit(0)
		if lo != nil {
			l = *lo
		}
		h := n
		if hi != nil {
			h = *hi
		}
		g := mkAnd(app(sBool, "<=", intLit(0), l), app(sBool, "<=", l, h), app(sBool, "<=", h, n))
		x.oblige(st, "bounds", name, x.safetyProps(), g, "array slice bounds in range", posStr(x.prog.fset, ins.Pos()))
		st.assume(g)
		fr.vals[ins] = Sl{p.Idx[0], l, x.def(st, "sl", app(sInt, "-", h, l)), x.def(st, "sc", app(sInt, "-", n, l)), ins.Type()}
	default:
		fail("slice of %T", xv)
	}
}

// ---- maps ----

func mapClasses(mt *types.Map) (string, string, string) {
	p := "map:" + typeStr(mt.Key()) + ":" + typeStr(mt.Elem())
	return p + "#dom", p + "#val", p + "#size"
}

// mapClassesOf returns the heap classes of map m; maps loaded from an owned field live in classes of their own.
func (x *Exec) mapClassesOf(m Term, mt *types.Map) (string, string, string) {
	d, v, s := mapClasses(mt)
	if o, ok := x.own[m.S]; ok {
		return d + "@" + o, v + "@" + o, s + "@" + o
	}
	return d, v, s
}

func (x *Exec) mapDom(st *State, m Term, mt *types.Map) Term {
	d, _, _ := x.mapClassesOf(m, mt)
	ks := x.heapSort(mt.Key())
	a := x.classTermSort(st, d, arr(sInt, arr(ks, sBool)))
	return x.outerSelect(a, m)
}

func (x *Exec) heapSort(t types.Type) string {
	s := x.sortOf(t)
	if s == sBV64 {
		return sInt
	}
	if s == "" {
		fail("composite map key/value %s", t)
	}
	return s
}

// classTermSort is classTerm with an explicit full sort.
func (x *Exec) classTermSort(st *State, class, sort string) Term {
	if st.param != nil {
		// compiling a heap-dependent spec function: heap classes are parameters
		name := quoteSym("hp:" + class)
		if _, ok := st.param.sorts[class]; !ok {
			st.param.sorts[class] = sort
			st.param.order = append(st.param.order, class)
		}
		return Term{name, sort}
	}
	if t, ok := st.heap[class]; ok {
		return t
	}
	ep := 0
	var epRec *epoch
	for i := len(st.epochs) - 1; i >= 0; i-- {
		if st.epochs[i].matches(class) {
			ep = st.epochs[i].id
			epRec = &st.epochs[i]
			break
		}
	}
	name := quoteSym(fmt.Sprintf("H:%s@%d", class, ep))
	x.decls.add(name, fmt.Sprintf("(declare-const %s %s)", name, sort))
	t := Term{name, sort}
	st.heap[class] = t
	if ep == 0 && sort == sInt && strings.HasPrefix(class, "global:") && len(st.epochs) == 0 && x.globalIsRef(class) {
		// what a package-level pointer/map variable held at entry was allocated before the call
		ea := st.alloc
		if x.entry != nil {
			ea = x.entry.alloc
		}
		x.decls.add(name+":bound", fmt.Sprintf("(assert (and (<= 0 %s) (< %s %s)))", name, name, ea.S))
		x.boundOf[name] = 1
	}
	if epRec != nil && len(epRec.locals) > 0 && strings.HasPrefix(sort, "(Array Int ") && !strings.HasPrefix(class, "global:") {
		// a callee cannot reach objects this activation allocated and never let escape
		prev := x.classTermSort(epRec.pre, class, sort)
		for _, l := range epRec.locals {
			st.pc = append(st.pc, mkEq(mkSelect(t, l), mkSelect(prev, l)))
		}
	}
	return t
}

func (x *Exec) setClass(st *State, class string, nt Term) {
	x.nsym++
	name := quoteSym(fmt.Sprintf("H:%s!%d", class, x.nsym))
	st.defs = append(st.defs, fmt.Sprintf("(define-fun %s () %s %s)", name, nt.Sort, nt.S))
	st.heap[class] = Term{name, nt.Sort}
}

// mapValLeaves enumerates the leaf classes of the map's value type.
func (x *Exec) mapValRead(st *State, m Term, mt *types.Map, k Term) Val {
	_, vc, _ := x.mapClassesOf(m, mt)
	ks := x.heapSort(mt.Key())
	return x.readComposite(st, vc, mt.Elem(), func(class string, sort string) Term {
		a := x.classTermSort(st, class, arr(sInt, arr(ks, sort)))
		return mkSelect(x.outerSelect(a, m), k)
	})
}

func (x *Exec) readComposite(st *State, prefix string, t types.Type, rd func(class, sort string) Term) Val {
	switch u := t.Underlying().(type) {
	case *types.Slice:
		return Sl{x.def(st, "ld", rd(prefix+"#base", sInt)), x.def(st, "ld", rd(prefix+"#off", sInt)), x.def(st, "ld", rd(prefix+"#len", sInt)), x.def(st, "ld", rd(prefix+"#cap", sInt)), t}
	case *types.Struct:
		s := St{GT: t}
		for i := 0; i < u.NumFields(); i++ {
			s.F = append(s.F, x.readComposite(st, prefix+"."+u.Field(i).Name(), u.Field(i).Type(), rd))
		}
		return s
	}
	return Sc{x.def(st, "ld", rd(prefix, x.heapSort(t))), t}
}

func (x *Exec) writeComposite(prefix string, v Val, wr func(class string, t Term)) {
	switch v := v.(type) {
	case Sl:
		wr(prefix+"#base", v.Base)
		wr(prefix+"#off", v.Off)
		wr(prefix+"#len", v.Len)
		wr(prefix+"#cap", v.Cap)
	case St:
		u := v.GT.Underlying().(*types.Struct)
		for i, f := range v.F {
			x.writeComposite(prefix+"."+u.Field(i).Name(), f, wr)
		}
	case Sc:
		wr(prefix, v.T)
	case Ptr:
		if !v.Obj {
			fail("interior pointer stored in map")
		}
		wr(prefix, v.Idx[0])
	default:
		fail("map value of %T", v)
	}
}

func (x *Exec) lookup(fr *Frame, st *State, ins *ssa.Lookup) {
	xv := x.val(fr, st, ins.X)
	if mt, ok := ins.X.Type().Underlying().(*types.Map); ok {
		m := xv.(Sc).T
		k := x.val(fr, st, ins.Index).(Sc).T
		dom := x.def(st, "has", mkSelect(x.mapDom(st, m, mt), k))
		v := x.mapValRead(st, m, mt, k)
		// absent key (or nil map): zero value
		v = x.iteVal(st, dom, v, x.zeroVal(mt.Elem()))
		x.assumeLoaded(st, v)
		if ins.CommaOk {
			fr.vals[ins] = Tup{[]Val{v, Sc{dom, types.Typ[types.Bool]}}}
		} else {
			fr.vals[ins] = v
		}
		return
	}
	// string index
	s := xv.(Sc).T
	i := x.val(fr, st, ins.Index).(Sc).T
	x.boundsCheck(fr, st, ins, i, app(sInt, "str.len_", s))
	r := x.def(st, "ch", app(sInt, "str.at_", s, i))
	st.assume(mkAnd(app(sBool, "<=", intLit(0), r), app(sBool, "<=", r, intLit(255))))
	fr.vals[ins] = Sc{r, ins.Type()}
}

func (x *Exec) iteVal(st *State, c Term, a, b Val) Val {
	if c.S == "true" {
		return a
	}
	if c.S == "false" {
		return b
	}
	switch a := a.(type) {
	case Sc:
		return Sc{x.def(st, "ite", mkIte(c, a.T, b.(Sc).T)), a.GT}
	case Sl:
		bb := b.(Sl)
		return Sl{mkIte(c, a.Base, bb.Base), mkIte(c, a.Off, bb.Off), mkIte(c, a.Len, bb.Len), mkIte(c, a.Cap, bb.Cap), a.GT}
	case St:
		bb := b.(St)
		r := St{GT: a.GT}
		for i := range a.F {
			r.F = append(r.F, x.iteVal(st, c, a.F[i], bb.F[i]))
		}
		return r
	}
	fail("iteVal on %T", a)
	return nil
}

func (x *Exec) mapInit(st *State, m Sc) {
	mt := m.GT.Underlying().(*types.Map)
	d, _, sz := x.mapClassesOf(m.T, mt)
	ks := x.heapSort(mt.Key())
	a := x.classTermSort(st, d, arr(sInt, arr(ks, sBool)))
	empty := Term{fmt.Sprintf("((as const %s) false)", arr(ks, sBool)), arr(ks, sBool)}
	x.setClassStore(st, d, a, m.T, empty)
	s := x.classTermSort(st, sz, arr(sInt, sInt))
	x.setClassStore(st, sz, s, m.T, intLit(0))
}

func (x *Exec) mapUpdate(st *State, m Sc, k, v Val) {
	mt := m.GT.Underlying().(*types.Map)
	d, vc, sz := x.mapClassesOf(m.T, mt)
	ks := x.heapSort(mt.Key())
	kt := k.(Sc).T
	a := x.classTermSort(st, d, arr(sInt, arr(ks, sBool)))
	had := x.def(st, "had", mkSelect(x.outerSelect(a, m.T), kt))
	x.setClassStore(st, d, a, m.T, mkStore(x.outerSelect(a, m.T), kt, tTrue))
	s := x.classTermSort(st, sz, arr(sInt, sInt))
	x.setClassStore(st, sz, s, m.T, app(sInt, "+", x.outerSelect(s, m.T), mkIte(had, intLit(0), intLit(1))))
	x.writeComposite(vc, v, func(class string, t Term) {
		va := x.classTermSort(st, class, arr(sInt, arr(ks, t.Sort)))
		x.setClassStore(st, class, va, m.T, mkStore(x.outerSelect(va, m.T), kt, t))
	})
}

func (x *Exec) mapDelete(st *State, m Sc, k Val) {
	mt := m.GT.Underlying().(*types.Map)
	d, _, sz := x.mapClassesOf(m.T, mt)
	ks := x.heapSort(mt.Key())
	kt := k.(Sc).T
	a := x.classTermSort(st, d, arr(sInt, arr(ks, sBool)))
	had := x.def(st, "had", mkSelect(x.outerSelect(a, m.T), kt))
	x.setClassStore(st, d, a, m.T, mkStore(x.outerSelect(a, m.T), kt, tFalse))
	s := x.classTermSort(st, sz, arr(sInt, sInt))
	x.setClassStore(st, sz, s, m.T, app(sInt, "-", x.outerSelect(s, m.T), mkIte(had, intLit(1), intLit(0))))
}

func (x *Exec) mapLen(st *State, m Sc) Term {
	mt := m.GT.Underlying().(*types.Map)
	_, _, sz := x.mapClassesOf(m.T, mt)
	s := x.classTermSort(st, sz, arr(sInt, sInt))
	r := x.def(st, "mlen", x.outerSelect(s, m.T))
	st.assume(app(sBool, "<=", intLit(0), r))
	st.assume(app(sBool, "<=", r, bigIntLit("281474976710656")))
	st.assume(mkImplies(mkEq(m.T, intLit(0)), mkEq(r, intLit(0))))
	return r
}

// ---- range ----

func (x *Exec) rangeInit(fr *Frame, st *State, ins *ssa.Range) {
	xv := x.val(fr, st, ins.X)
	fr.vals[ins] = Iter{Instr: ins, X: xv, GT: ins.Type()}
	if mt, ok := ins.X.Type().Underlying().(*types.Map); ok {
		ks := x.heapSort(mt.Key())
		fr.iters[ins] = Term{fmt.Sprintf("((as const %s) false)", arr(ks, sBool)), arr(ks, sBool)}
	} else {
		fr.iters[ins] = intLit(0)
	}
}

func (x *Exec) next(fr *Frame, st *State, ins *ssa.Next) {
	it := x.val(fr, st, ins.Iter).(Iter)
	cur := fr.iters[it.Instr]
	tt := ins.Type().(*types.Tuple)
	if ins.IsString {
		s := it.X.(Sc).T
		ln := app(sInt, "str.len_", s)
		ok := x.def(st, "ok", app(sBool, "<", cur, ln))
		w := x.fresh("rw", sInt)
		r := x.fresh("rune", sInt)
		st.assume(mkAnd(app(sBool, "<=", intLit(1), w), app(sBool, "<=", w, intLit(4)), app(sBool, "<=", app(sInt, "+", cur, w), ln)))
		st.assume(mkAnd(app(sBool, "<=", intLit(0), r), app(sBool, "<=", r, intLit(1114111))))
		fr.iters[it.Instr] = x.def(st, "pos", mkIte(ok, app(sInt, "+", cur, w), cur))
		fr.vals[ins] = Tup{[]Val{Sc{ok, tt.At(0).Type()}, Sc{cur, tt.At(1).Type()}, Sc{r, tt.At(2).Type()}}}
		x.note("range over string: rune decoding abstracted (width 1..4, arbitrary code point)")
		return
	}
	mt := it.Instr.X.Type().Underlying().(*types.Map)
	m := it.X.(Sc).T
	ks := x.heapSort(mt.Key())
	ok := x.fresh("ok", sBool)
	k := x.fresh("key", ks)
	dom := x.mapDom(st, m, mt)
	st.assume(mkImplies(ok, mkAnd(mkSelect(dom, k), mkNot(mkSelect(cur, k)))))
	st.assume(mkImplies(mkNot(ok), Term{fmt.Sprintf("(forall ((k %s)) (=> (select %s k) (select %s k)))", ks, dom.S, cur.S), sBool}))
	fr.iters[it.Instr] = x.def(st, "seen", mkIte(ok, mkStore(cur, k, tTrue), cur))
	kv := Sc{k, tt.At(1).Type()}
	x.assumeValid(st, kv)
	var vv Val = Sc{intLit(0), tt.At(2).Type()}
	if !isInvalidType(tt.At(2).Type()) {
		vv = x.mapValRead(st, m, mt, k)
		x.assumeLoaded(st, vv)
	}
	fr.vals[ins] = Tup{[]Val{Sc{ok, tt.At(0).Type()}, kv, vv}}
}

func isInvalidType(t types.Type) bool {
	b, ok := t.(*types.Basic)
	return ok && b.Kind() == types.Invalid
}

// ---- defers ----

func (x *Exec) runDefers(fr *Frame, st *State, k func(st *State, fr *Frame)) {
	if len(fr.defers) == 0 {
		k(st, fr)
		return
	}
	n := len(fr.defers) - 1
	d := fr.defers[n]
	args := fr.dargs[n]
	fr.defers = fr.defers[:n]
	fr.dargs = fr.dargs[:n]
	x.callCommon(fr, st, &d.Call, args, d, func(st *State, fr *Frame, res []Val) {
		x.runDefers(fr, st, k)
	})
}

// ---- type invariants ----

func (x *Exec) markDirty(st *State, p Ptr) {
	if len(p.Idx) != 1 {
		return
	}
	tn := p.Prefix
	if i := strings.Index(tn[strings.LastIndex(tn, ":")+1:], "."); i >= 0 {
		// pkg.Type.field... -> pkg.Type
		parts := strings.SplitN(tn, ".", 3)
		if len(parts) >= 2 {
			tn = parts[0] + "." + parts[1]
		}
	}
	if _, ok := x.prog.specs.TypeInv[tn]; !ok {
		return
	}
	for _, d := range st.dirty {
		if d.typ == tn && d.ref.S == p.Idx[0].S {
			return
		}
	}
	if os.Getenv("EVYVC_DEBUG_INV") != "" {
		fmt.Fprintf(os.Stderr, "markDirty %s %s fresh=%v seen=%v\n", tn, p.Idx[0].S, x.freshRefs[p.Idx[0].S], st.invSeen[tn+"|"+p.Idx[0].S])
	}
	if !x.freshRefs[p.Idx[0].S] {
		// the object existed at the last boundary, where its invariant held: record that before it is first mutated
		if nt, ok := x.prog.namedType(tn); ok {
			x.assumeTypeInv(st, Ptr{Prefix: tn, Idx: p.Idx[:1], Elem: nt, Obj: true, GT: types.NewPointer(nt)})
		}
	}
	st.dirty = append(st.dirty, dirtyObj{tn, p.Idx[0]})
}

func (x *Exec) assumeTypeInv(st *State, p Ptr) {
	if !p.Obj && len(p.Idx) != 1 {
		return
	}
	tn := p.Prefix
	invs, ok := x.prog.specs.TypeInv[tn]
	if !ok {
		return
	}
	key := tn + "|" + p.Idx[0].S
	if st.invSeen[key] {
		return
	}
	for _, d := range st.dirty {
		if d.typ == tn {
			// an object of this type is being mutated; it may alias p
			if d.ref.S == p.Idx[0].S {
				return
			}
		}
	}
	st.invSeen[key] = true
	for _, inv := range invs {
		// the invariant is known to hold in the heap of the last boundary, not necessarily in the current one
		hs := st
		if st.boundary != nil {
			hs = st.boundary
		}
		t := x.evalTypeInv(hs, inv, p)
		// aliasing with a dirty object of the same type makes the invariant unavailable
		var guards []Term
		for _, d := range st.dirty {
			if d.typ == tn {
				guards = append(guards, mkNot(mkEq(d.ref, p.Idx[0])))
			}
		}
		st.assume(mkImplies(mkAnd(append(guards, mkNot(mkEq(p.Idx[0], intLit(0))))...), t))
	}
}

// checkTypeInvs asserts the invariants of every object mutated since the last boundary.
func (x *Exec) checkTypeInvs(fr *Frame, st *State, where string) {
	if fr.depth > 0 {
		return
	}
	var keep []dirtyObj
	defer func() { st.dirtyKeep = keep }()
	for _, d := range st.dirty {
		if where != "at return" {
			// an object this activation is still building and has not let escape need not be consistent yet
			local := false
			for _, l := range st.locals {
				if l.S == d.ref.S {
					local = true
				}
			}
			if local {
				keep = append(keep, d)
				continue
			}
		}
		for i, inv := range x.prog.specs.TypeInv[d.typ] {
			named := d.typ
			nt, ok := x.prog.namedType(d.typ)
			if !ok {
				continue
			}
			p := Ptr{Prefix: named, Idx: []Term{d.ref}, Elem: nt, Obj: true, GT: types.NewPointer(nt)}
			t := x.evalTypeInv(st, inv, p)
			short := d.typ[strings.Index(d.typ, ".")+1:]
			x.oblige(st, "typeinv", fmt.Sprintf("typeinv-%s#%d", short, i+1), x.safetyProps(), t, "object invariant of "+d.typ+" re-established "+where+": "+inv.Text, "")
		}
	}
}

// sorted list helper
func sortedStrings(m map[string]bool) []string {
	var out []string
	for k := range m {
		out = append(out, k)
	}
	sort.Strings(out)
	return out
}

// mathInt converts an integer term used as a heap index or length to the mathematical sort.
func (x *Exec) mathInt(t Term) Term {
	if t.Sort != sBV64 {
		return t
	}
	if len(t.S) == 18 && t.S[:2] == "#x" {
		var n uint64
		fmt.Sscanf(t.S[2:], "%x", &n)
		return intLit(int64(n))
	}
	fail("bv64 mode: non-constant integer used as index or length")
	return t
}

// ownedTarget: if a MakeMap result is stored directly into an owned field, it belongs to that field's class.
func (x *Exec) ownedTarget(ins *ssa.MakeMap) string {
	for _, r := range *ins.Referrers() {
		if stI, ok := r.(*ssa.Store); ok && stI.Val == ins {
			if fa, ok := stI.Addr.(*ssa.FieldAddr); ok {
				stt := fa.X.Type().Underlying().(*types.Pointer).Elem()
				name := typeStr(stt) + "." + stt.Underlying().(*types.Struct).Field(fa.Field).Name()
				if x.prog.specs.Owned[name] {
					return name
				}
			}
		}
	}
	return ""
}

type recFunc struct {
	name      string
	reads     []string
	sorts     map[string]string
	rsort     string
	rtype     types.Type
	psorts    []string
	compiling bool
}

type paramHeap struct {
	sorts map[string]string
	order []string
}

var qvarRe = regexp.MustCompile(`[A-Za-z_][A-Za-z0-9_]*!q[0-9]+`)

// alphaNorm renames bound variables by order of appearance so that alpha-equivalent formulas compare equal.
func alphaNorm(s string) string {
	if !strings.Contains(s, "!q") {
		return s
	}
	m := map[string]string{}
	return qvarRe.ReplaceAllStringFunc(s, func(v string) string {
		if r, ok := m[v]; ok {
			return r
		}
		r := fmt.Sprintf("v!q#%d", len(m))
		m[v] = r
		return r
	})
}

func lineOf(fset *token.FileSet, b *ssa.BasicBlock) string {
	for _, ins := range b.Instrs {
		if p := ins.Pos(); p.IsValid() {
			return fmt.Sprint(fset.Position(p).Line)
		}
	}
	return "?"
}

// refineTypeAssert: on the branch where a comma-ok type assertion succeeded, its value component is the
// plain payload (no ite on the ok flag), which keeps later terms small and syntactically comparable.
func (x *Exec) refineTypeAssert(fr *Frame, st *State, cond ssa.Value) {
	ex, ok := cond.(*ssa.Extract)
	if !ok || ex.Index != 1 {
		return
	}
	ta, ok := ex.Tuple.(*ssa.TypeAssert)
	if !ok || !ta.CommaOk {
		return
	}
	if _, isIface := ta.AssertedType.Underlying().(*types.Interface); isIface {
		return
	}
	switch ta.AssertedType.Underlying().(type) {
	case *types.Struct, *types.Slice, *types.Array:
		return
	}
	itv, ok := fr.vals[ta.X].(Sc)
	if !ok {
		return
	}
	plain := x.unbox(itv.T, ta.AssertedType)
	for _, r := range *ta.Referrers() {
		if e0, ok := r.(*ssa.Extract); ok && e0.Index == 0 {
			fr.vals[e0] = plain
		}
	}
	if sc, ok := plain.(Sc); ok {
		x.assumeValid(st, sc)
	}
}

// globalIsRef: the package-level variable behind a "global:pkg.Name" class has pointer, map, func or chan type.
func (x *Exec) globalIsRef(class string) bool {
	q := strings.TrimPrefix(class, "global:")
	i := strings.Index(q, ".")
	if i < 0 {
		return false
	}
	tp := x.prog.typesPkg(q[:i])
	if tp == nil {
		return false
	}
	v, ok := tp.Scope().Lookup(q[i+1:]).(*types.Var)
	if !ok {
		return false
	}
	switch v.Type().Underlying().(type) {
	case *types.Pointer, *types.Map, *types.Signature, *types.Chan:
		return true
	}
	return false
}
