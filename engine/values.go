package main

import (
	"fmt"
	"go/constant"
	"go/types"
	"os"
	"runtime/debug"
	"strings"

	"golang.org/x/tools/go/ssa"
)

// Val is a symbolic Go value.
type Val interface{ GoType() types.Type }

// Sc is a scalar: bool, integer, float, string, pointer (object ref), map, func, interface.
type Sc struct {
	T  Term
	GT types.Type
}

// Sl is a slice header.
type Sl struct {
	Base, Off, Len, Cap Term
	GT                  types.Type
}

// St is a struct held by value.
type St struct {
	F  []Val
	GT types.Type
}

// Tup is a tuple (multiple results).
type Tup struct{ E []Val }

// Ptr is an interior or object pointer: the location family Prefix[Idx...].
type Ptr struct {
	Prefix string
	Idx    []Term
	Elem   types.Type
	GT     types.Type
	Obj    bool
}

// Clo is a closure created in the function under analysis.
type Clo struct {
	Fn   *ssa.Function
	Bind []Val
	GT   types.Type
}

// Iter is a map/string range iterator.
type Iter struct {
	Instr *ssa.Range
	X     Val
	GT    types.Type
}

func (v Sc) GoType() types.Type   { return v.GT }
func (v Sl) GoType() types.Type   { return v.GT }
func (v St) GoType() types.Type   { return v.GT }
func (v Tup) GoType() types.Type  { return nil }
func (v Ptr) GoType() types.Type  { return v.GT }
func (v Clo) GoType() types.Type  { return v.GT }
func (v Iter) GoType() types.Type { return v.GT }

type unsupported struct{ msg string }

func fail(format string, args ...any) {
	if os.Getenv("EVYVC_STACK") != "" {
		debug.PrintStack()
	}
	panic(unsupported{fmt.Sprintf(format, args...)})
}

func qual(p *types.Package) string { return p.Name() }

func typeStr(t types.Type) string { return types.TypeString(t, qual) }

// objPrefix is the heap class prefix of an object of type t reached through a plain pointer.
func objPrefix(t types.Type) string {
	if n, ok := t.(*types.Named); ok {
		if _, ok := n.Underlying().(*types.Struct); ok {
			return typeStr(n)
		}
	}
	if a, ok := t.Underlying().(*types.Array); ok {
		return "elem:" + typeStr(a.Elem())
	}
	return "cell:" + typeStr(t)
}

func isIntKind(b *types.Basic) bool { return b.Info()&types.IsInteger != 0 }

// sortOf returns the SMT sort of a scalar Go type, or "" if composite.
func (x *Exec) sortOf(t types.Type) string {
	switch u := t.Underlying().(type) {
	case *types.Basic:
		switch {
		case u.Info()&types.IsBoolean != 0:
			return sBool
		case u.Info()&types.IsString != 0:
			return sStr
		case u.Info()&types.IsInteger != 0:
			if x.bv && (u.Kind() == types.Int || u.Kind() == types.Int64 || u.Kind() == types.UntypedInt) {
				return sBV64
			}
			return sInt
		case u.Info()&types.IsFloat != 0:
			return sF64
		case u.Kind() == types.UnsafePointer:
			return sInt
		case u.Kind() == types.UntypedNil:
			return sInt
		}
		fail("unsupported basic type %s", t)
	case *types.Pointer, *types.Map, *types.Chan, *types.Signature:
		return sInt
	case *types.Interface:
		return sIface
	}
	return ""
}

func (x *Exec) isIntType(t types.Type) bool {
	b, ok := t.Underlying().(*types.Basic)
	return ok && isIntKind(b)
}

func (x *Exec) intSort() string {
	if x.bv {
		return sBV64
	}
	return sInt
}

func (x *Exec) intLit(n int64) Term {
	if x.bv {
		return bvLit(n)
	}
	return intLit(n)
}

// fresh declares a fresh constant of the given sort.
func (x *Exec) fresh(hint, sort string) Term {
	x.nsym++
	name := quoteSym(fmt.Sprintf("%s!%d", hint, x.nsym))
	x.decls.add(name, fmt.Sprintf("(declare-const %s %s)", name, sort))
	return Term{name, sort}
}

func isAtom(s string) bool {
	return !strings.HasPrefix(s, "(")
}

// def names a term so that later uses stay small.
func (x *Exec) def(st *State, hint string, t Term) Term {
	if st.inQuant > 0 || st.noSide || isAtom(t.S) || len(t.S) < 24 {
		return t
	}
	x.nsym++
	name := quoteSym(fmt.Sprintf("%s!%d", hint, x.nsym))
	st.defs = append(st.defs, fmt.Sprintf("(define-fun %s () %s %s)", name, t.Sort, t.S))
	return Term{name, t.Sort}
}

// freshVal creates an unconstrained value of type t; validity facts are appended to st.pc.
func (x *Exec) freshVal(st *State, hint string, t types.Type) Val {
	switch u := t.Underlying().(type) {
	case *types.Slice:
		v := Sl{x.fresh(hint+".base", sInt), x.fresh(hint+".off", sInt), x.fresh(hint+".len", sInt), x.fresh(hint+".cap", sInt), t}
		x.assumeValid(st, v)
		return v
	case *types.Struct:
		s := St{GT: t}
		for i := 0; i < u.NumFields(); i++ {
			s.F = append(s.F, x.freshVal(st, hint+"."+u.Field(i).Name(), u.Field(i).Type()))
		}
		return s
	case *types.Tuple:
		tp := Tup{}
		for i := 0; i < u.Len(); i++ {
			tp.E = append(tp.E, x.freshVal(st, fmt.Sprintf("%s.%d", hint, i), u.At(i).Type()))
		}
		return tp
	case *types.Array:
		fail("array by value unsupported: %s", t)
	}
	v := Sc{x.fresh(hint, x.sortOf(t)), t}
	x.assumeValid(st, v)
	return v
}

// assumeValid adds the representation invariants of v (allocatedness, slice header shape, ranges).
func (x *Exec) assumeValid(st *State, v Val) {
	switch v := v.(type) {
	case Sc:
		switch u := v.GT.Underlying().(type) {
		case *types.Pointer, *types.Map, *types.Signature, *types.Chan:
			st.assume(mkAnd(app(sBool, "<=", intLit(0), v.T), app(sBool, "<", v.T, st.alloc)))
			if strings.HasPrefix(v.T.S, "|H:global:") && strings.HasSuffix(v.T.S, "@0|") {
				// the value a package-level variable had at entry was allocated before the call
				ea := st.alloc
				if x.entry != nil {
					ea = x.entry.alloc
				}
				st.assume(app(sBool, "<", v.T, ea))
				if _, ok := x.boundOf[v.T.S]; !ok {
					x.boundOf[v.T.S] = 1
				}
			}
			x.noteBound(st, v.T)
		case *types.Interface:
			st.assume(mkImplies(app(sBool, "(_ is iptr)", v.T), mkAnd(app(sBool, "<=", intLit(0), app(sInt, "iref", v.T)), app(sBool, "<", app(sInt, "iref", v.T), st.alloc))))
			x.noteBound(st, irefOf(v.T))
		case *types.Basic:
			if isIntKind(u) && !x.bv {
				switch u.Kind() {
				case types.Uint8:
					st.assume(mkAnd(app(sBool, "<=", intLit(0), v.T), app(sBool, "<=", v.T, intLit(255))))
				case types.Uint16:
					st.assume(mkAnd(app(sBool, "<=", intLit(0), v.T), app(sBool, "<=", v.T, intLit(65535))))
				case types.Uint, types.Uint32, types.Uint64, types.Uintptr:
					st.assume(app(sBool, "<=", intLit(0), v.T))
				case types.Int32:
					st.assume(mkAnd(app(sBool, "<=", intLit(-2147483648), v.T), app(sBool, "<=", v.T, intLit(2147483647))))
				case types.Int, types.Int64:
					st.assume(mkAnd(app(sBool, "<=", bigIntLit("-9223372036854775808"), v.T), app(sBool, "<=", v.T, bigIntLit("9223372036854775807"))))
				}
			}
			if u.Info()&types.IsString != 0 {
				st.assume(app(sBool, "<=", intLit(0), app(sInt, "str.len_", v.T)))
			}
		}
	case Sl:
		x.noteBound(st, v.Base)
		st.assume(mkAnd(
			app(sBool, "<=", intLit(0), v.Base), app(sBool, "<", v.Base, st.alloc),
			app(sBool, "<=", intLit(0), v.Off), app(sBool, "<=", intLit(0), v.Len), app(sBool, "<=", v.Len, v.Cap),
			mkImplies(mkEq(v.Base, intLit(0)), mkAnd(mkEq(v.Cap, intLit(0)), mkEq(v.Off, intLit(0)))),
			app(sBool, "<=", v.Cap, bigIntLit("281474976710656"))))
	case St:
		for _, f := range v.F {
			x.assumeValid(st, f)
		}
	case Tup:
		for _, f := range v.E {
			x.assumeValid(st, f)
		}
	}
}

// zeroVal is the Go zero value of t.
func (x *Exec) zeroVal(t types.Type) Val {
	switch u := t.Underlying().(type) {
	case *types.Slice:
		z := intLit(0)
		return Sl{z, z, z, z, t}
	case *types.Struct:
		s := St{GT: t}
		for i := 0; i < u.NumFields(); i++ {
			s.F = append(s.F, x.zeroVal(u.Field(i).Type()))
		}
		return s
	case *types.Array:
		fail("array by value unsupported: %s", t)
	}
	return Sc{x.zeroTerm(t), t}
}

func (x *Exec) zeroTerm(t types.Type) Term {
	switch x.sortOf(t) {
	case sBool:
		return tFalse
	case sInt:
		return intLit(0)
	case sBV64:
		return bvLit(0)
	case sF64:
		return f64Lit(0)
	case sStr:
		return x.strLit("")
	case sIface:
		return tNilI
	}
	fail("no zero term for %s", t)
	return Term{}
}

// strLit returns the constant for a Go string literal.
func (x *Exec) strLit(s string) Term {
	if t, ok := x.strLits[s]; ok {
		return t
	}
	name := quoteSym(fmt.Sprintf("s:%d:%s", len(x.strLits), sanitize(s)))
	x.decls.add(name, fmt.Sprintf("(declare-const %s Str)", name))
	t := Term{name, sStr}
	x.strLits[s] = t
	x.strOrder = append(x.strOrder, s)
	return t
}

func sanitize(s string) string {
	var sb strings.Builder
	for i, c := range s {
		if i > 24 {
			break
		}
		if c >= 'a' && c <= 'z' || c >= 'A' && c <= 'Z' || c >= '0' && c <= '9' || c == '_' || c == '%' || c == ':' || c == '-' {
			sb.WriteRune(c)
		} else {
			sb.WriteByte('.')
		}
	}
	return sb.String()
}

// strFacts are asserted in every query: distinctness and lengths of literals.
func (x *Exec) strFacts() string {
	var sb strings.Builder
	if len(x.strOrder) >= 2 {
		sb.WriteString("(assert (distinct")
		for _, s := range x.strOrder {
			sb.WriteString(" " + x.strLits[s].S)
		}
		sb.WriteString("))\n")
	}
	for _, s := range x.strOrder {
		t := x.strLits[s]
		sb.WriteString(fmt.Sprintf("(assert (= (str.len_ %s) %d))\n", t.S, len(s)))
		n := 0
		for range s {
			n++
		}
		sb.WriteString(fmt.Sprintf("(assert (= (str.rlen_ %s) %d))\n", t.S, n))
		if len(s) <= 8 {
			for i := 0; i < len(s); i++ {
				sb.WriteString(fmt.Sprintf("(assert (= (str.at_ %s %d) %d))\n", t.S, i, s[i]))
			}
		}
	}
	if e, ok := x.strLits[""]; ok {
		sb.WriteString(fmt.Sprintf("(assert (forall ((s Str)) (! (=> (= (str.len_ s) 0) (= s %s)) :pattern ((str.len_ s)))))\n", e.S))
	}
	return sb.String()
}

// constVal converts an SSA constant.
func (x *Exec) constVal(c *ssa.Const) Val {
	t := c.Type()
	if c.Value == nil { // nil or zero
		if _, ok := t.Underlying().(*types.Basic); ok && t.Underlying().(*types.Basic).Kind() == types.UntypedNil {
			return Sc{intLit(0), t}
		}
		return x.zeroVal(t)
	}
	switch x.sortOf(t) {
	case sBool:
		return Sc{boolLit(constant.BoolVal(c.Value)), t}
	case sStr:
		return Sc{x.strLit(constant.StringVal(c.Value)), t}
	case sInt:
		v := constant.ToInt(c.Value)
		return Sc{bigIntLit(v.ExactString()), t}
	case sBV64:
		v, _ := constant.Int64Val(constant.ToInt(c.Value))
		return Sc{bvLit(v), t}
	case sF64:
		f, _ := constant.Float64Val(constant.ToFloat(c.Value))
		return Sc{f64Lit(f), t}
	}
	fail("unsupported constant %v", c)
	return nil
}

// ---- heap ----

type epoch struct {
	id     int
	all    bool
	pref   []string // class prefixes havocked
	except []string // with all: class prefixes that are preserved
	pre    *State   // state before the havoc (calls only)
	locals []Term   // objects allocated by this activation and not yet escaped: a callee cannot reach them
}

func (e epoch) matches(class string) bool {
	if e.all && strings.HasPrefix(class, "global:") {
		// package-level variables change only when a modifies clause names them (checked on the callee's body)
		return false
	}
	if e.all {
		for _, p := range e.except {
			if classMatches(class, p) {
				return false
			}
		}
		return true
	}
	for _, p := range e.pref {
		if classMatches(class, p) {
			return true
		}
	}
	return false
}

// classMatches: class equals pattern, or extends it by a component separator.
func classMatches(class, pat string) bool {
	if class == pat {
		return true
	}
	if strings.HasSuffix(pat, ".") {
		return strings.HasPrefix(class, pat) // whole-package pattern such as "parser."
	}
	if strings.HasPrefix(class, pat) && len(class) > len(pat) && (class[len(pat)] == '.' || class[len(pat)] == '#' || class[len(pat)] == '@') {
		return true
	}
	return false
}

// State is the symbolic state along one path.
type State struct {
	heap      map[string]Term
	epochs    []epoch
	alloc     Term
	pc        []Term
	defs      []string
	log       []LogEntry
	logSym    map[string]*SymLog // symbolic prefix of the call log per callee (set at loop heads)
	dirty     []dirtyObj
	dirtyKeep []dirtyObj
	invSeen   map[string]bool
	inQuant   int
	trace     []string
	noSide    bool // spec evaluation: do not add side assumptions
	param     *paramHeap
	pending   Term              // ghost: first error returned by a propagating callee and not yet returned
	boundary  *State            // heap at the last boundary (entry, after a call, loop head): object invariants hold there
	locals    []Term            // unescaped objects allocated by this activation
	inside    map[string]string // local object stored inside another local object
}

type dirtyObj struct {
	typ string
	ref Term
}

// SymLog: N calls of a callee happened before the concrete entries in State.log; their arguments and results are
// the elements 1..N of uninterpreted arrays.
type SymLog struct {
	N   Term
	ID  int
	Sig *logSig
}

type LogEntry struct {
	Key    string // full contract key; two different keys with the same short name make the name ambiguous
	Callee string
	Args   []Val
	Res    []Val
	Depth  int
}

func (st *State) clone() *State {
	n := &State{alloc: st.alloc, inQuant: st.inQuant, noSide: st.noSide, pending: st.pending, param: st.param, boundary: st.boundary}
	n.heap = make(map[string]Term, len(st.heap))
	for k, v := range st.heap {
		n.heap[k] = v
	}
	n.epochs = append([]epoch(nil), st.epochs...)
	n.pc = append([]Term(nil), st.pc...)
	n.defs = append([]string(nil), st.defs...)
	n.log = append([]LogEntry(nil), st.log...)
	n.logSym = st.logSym
	n.dirty = append([]dirtyObj(nil), st.dirty...)
	n.invSeen = make(map[string]bool, len(st.invSeen))
	for k, v := range st.invSeen {
		n.invSeen[k] = v
	}
	n.trace = append([]string(nil), st.trace...)
	n.locals = append([]Term(nil), st.locals...)
	n.inside = make(map[string]string, len(st.inside))
	for k, v := range st.inside {
		n.inside[k] = v
	}
	return n
}

func (st *State) assume(t Term) {
	if t.S == "true" || st.noSide || st.inQuant > 0 {
		return
	}
	// top-level conjuncts are kept separately: obligations that repeat one of them are discharged syntactically
	st.pc = append(st.pc, topConjuncts(t)...)
}

// classTerm returns the current array term of a heap class.
func (x *Exec) classTerm(st *State, class string, idxArity int, elSort string) Term {
	sort := elSort
	for i := 0; i < idxArity; i++ {
		sort = arr(sInt, sort)
	}
	return x.classTermSort(st, class, sort)
}

type classInfo struct {
	arity int
	sort  string
}

// havoc forgets the contents of the given class prefixes (or everything).
func (x *Exec) havoc(st *State, all bool, prefixes []string) {
	x.havocExcept(st, all, prefixes, nil)
}

func (x *Exec) havocExcept(st *State, all bool, prefixes, except []string) {
	x.havocCallee(st, all, prefixes, except, false)
}

// havocCallee: with byCall, objects this activation allocated and never let escape keep their contents.
func (x *Exec) havocCallee(st *State, all bool, prefixes, except []string, byCall bool) {
	x.nepoch++
	e := epoch{id: x.nepoch, all: all, pref: prefixes, except: except}
	if byCall && len(st.locals) > 0 {
		e.pre = st.clone()
		e.pre.noSide = true
		e.locals = append([]Term(nil), st.locals...)
	}
	for k := range st.heap {
		if e.matches(k) {
			delete(st.heap, k)
		}
	}
	st.epochs = append(st.epochs, e)
}

func (x *Exec) readLeaf(st *State, class string, idx []Term, sort string) Term {
	a := x.classTerm(st, class, len(idx), sort)
	// read-over-write at construction time: look through stores made on this path as long as the
	// indices are syntactically equal (hit) or are two different fresh allocations (miss)
	if st.param == nil && len(idx) >= 1 {
		cur := a
		for {
			info, ok := x.stores[cur.S]
			if !ok {
				break
			}
			if len(info.idx) == 1 && len(idx) == 2 {
				// a whole inner array was stored at info.idx[0]
				if info.idx[0].S == idx[0].S {
					return mkSelect(info.val, idx[1])
				}
				if x.distinctRefs(info.idx[0], idx[0]) {
					cur = info.prev
					continue
				}
				break
			}
			if len(info.idx) != len(idx) {
				break
			}
			if info.idx[0].S == idx[0].S {
				if len(idx) == 1 {
					return info.val
				}
				if info.idx[1].S == idx[1].S {
					return info.val
				}
				a1, ok1 := litVal(info.idx[1])
				b1, ok2 := litVal(idx[1])
				if ok1 && ok2 && a1 != b1 {
					cur = info.prev
					continue
				}
				break
			}
			if x.distinctRefs(info.idx[0], idx[0]) {
				cur = info.prev
				continue
			}
			break
		}
		a = cur
	}
	for _, i := range idx {
		a = mkSelect(a, i)
	}
	return a
}

type storeInfo struct {
	prev Term
	idx  []Term
	val  Term
}

func (x *Exec) writeLeaf(st *State, class string, idx []Term, v Term) {
	a := x.classTerm(st, class, len(idx), v.Sort)
	var nt Term
	switch len(idx) {
	case 0:
		nt = v
	case 1:
		nt = mkStore(a, idx[0], v)
	case 2:
		nt = mkStore(a, idx[0], mkStore(mkSelect(a, idx[0]), idx[1], v))
	default:
		fail("heap arity %d", len(idx))
	}
	x.nsym++
	name := quoteSym(fmt.Sprintf("H:%s!%d", class, x.nsym))
	st.defs = append(st.defs, fmt.Sprintf("(define-fun %s () %s %s)", name, nt.Sort, nt.S))
	st.heap[class] = Term{name, nt.Sort}
	if len(idx) >= 1 {
		x.stores[name] = storeInfo{prev: a, idx: idx, val: v}
	}
}

// load reads a value of type t from location p.
func (x *Exec) load(st *State, p Ptr, t types.Type) Val {
	switch u := t.Underlying().(type) {
	case *types.Slice:
		rawBase := x.readLeaf(st, p.Prefix+"#base", p.Idx, sInt)
		base := x.def(st, "ld", rawBase)
		x.noteEntryRead(rawBase, base)
		if x.prog.specs.Owned[p.Prefix] {
			x.own[base.S] = p.Prefix
		}
		return Sl{
			base,
			x.def(st, "ld", x.readLeaf(st, p.Prefix+"#off", p.Idx, sInt)),
			x.def(st, "ld", x.readLeaf(st, p.Prefix+"#len", p.Idx, sInt)),
			x.def(st, "ld", x.readLeaf(st, p.Prefix+"#cap", p.Idx, sInt)), t}
	case *types.Struct:
		s := St{GT: t}
		for i := 0; i < u.NumFields(); i++ {
			s.F = append(s.F, x.load(st, Ptr{Prefix: p.Prefix + "." + u.Field(i).Name(), Idx: p.Idx, Elem: u.Field(i).Type()}, u.Field(i).Type()))
		}
		return s
	case *types.Array:
		fail("load of array by value: %s", t)
	}
	srt := x.sortOf(t)
	if srt == sBV64 { // heap cells hold mathematical ints; no bridge in bv mode
		fail("bv64 mode: integer load from heap (%s) unsupported", p.Prefix)
	}
	raw := x.readLeaf(st, p.Prefix, p.Idx, srt)
	r := x.def(st, "ld", raw)
	if x.prog.specs.Owned[p.Prefix] {
		x.own[r.S] = p.Prefix
	}
	x.noteEntryRead(raw, r)
	return Sc{r, t}
}

// store writes v to location p.
func (x *Exec) store(st *State, p Ptr, v Val) {
	switch v := v.(type) {
	case Sl:
		x.writeLeaf(st, p.Prefix+"#base", p.Idx, v.Base)
		x.writeLeaf(st, p.Prefix+"#off", p.Idx, v.Off)
		x.writeLeaf(st, p.Prefix+"#len", p.Idx, v.Len)
		x.writeLeaf(st, p.Prefix+"#cap", p.Idx, v.Cap)
	case St:
		u := v.GT.Underlying().(*types.Struct)
		for i, f := range v.F {
			x.store(st, Ptr{Prefix: p.Prefix + "." + u.Field(i).Name(), Idx: p.Idx}, f)
		}
	case Sc:
		if v.T.Sort == sBV64 {
			fail("bv64 mode: integer store to heap unsupported")
		}
		x.writeLeaf(st, p.Prefix, p.Idx, v.T)
	case Ptr:
		if !v.Obj {
			fail("storing interior pointer %s into the heap", v.Prefix)
		}
		x.writeLeaf(st, p.Prefix, p.Idx, v.Idx[0])
	case Clo:
		x.writeLeaf(st, p.Prefix, p.Idx, x.cloRef(st, v))
	default:
		fail("store of %T", v)
	}
}

// cloRef gives a closure an identity (fresh function reference).
func (x *Exec) cloRef(st *State, c Clo) Term {
	r := x.newRef(st, "clo")
	x.closures[r.S] = c
	return r
}

// newRef allocates a fresh object reference.
func (x *Exec) newRef(st *State, hint string) Term {
	r := st.alloc
	x.nsym++
	name := quoteSym(fmt.Sprintf("alloc!%d", x.nsym))
	st.defs = append(st.defs, fmt.Sprintf("(define-fun %s () Int (+ %s 1))", name, st.alloc.S))
	st.alloc = Term{name, sInt}
	st.locals = append(st.locals, r)
	x.freshRefs[r.S] = true
	return r
}

func containsSym(text, sym string) bool {
	for from := 0; ; {
		i := strings.Index(text[from:], sym)
		if i < 0 {
			return false
		}
		i += from
		end := i + len(sym)
		okL := i == 0 || strings.IndexByte(" ()", text[i-1]) >= 0
		okR := end == len(text) || strings.IndexByte(" ()", text[end]) >= 0
		if okL && okR {
			return true
		}
		from = i + 1
	}
}

func valTerms(v Val, out *[]string) {
	switch v := v.(type) {
	case Sc:
		*out = append(*out, v.T.S)
	case Sl:
		*out = append(*out, v.Base.S)
	case St:
		for _, f := range v.F {
			valTerms(f, out)
		}
	case Tup:
		for _, f := range v.E {
			valTerms(f, out)
		}
	case Ptr:
		for _, i := range v.Idx {
			*out = append(*out, i.S)
		}
	case Clo:
		for _, b := range v.Bind {
			valTerms(b, out)
		}
	}
}

// escape: the objects referenced by v become reachable by other code.
func (x *Exec) escape(st *State, v Val, defs bool) {
	if len(st.locals) == 0 {
		return
	}
	var ts []string
	valTerms(v, &ts)
	for _, t := range ts {
		x.escapeTerm(st, t)
	}
}

func (x *Exec) escapeTerm(st *State, text string) {
	for i := 0; i < len(st.locals); i++ {
		l := st.locals[i]
		if containsSym(text, l.S) || x.defMentions(st, text, l.S) {
			st.locals = append(st.locals[:i:i], st.locals[i+1:]...)
			i--
			// everything stored inside it escapes too
			for child, parent := range st.inside {
				if parent == l.S {
					delete(st.inside, child)
					x.escapeTerm(st, child)
				}
			}
		}
	}
}

// defMentions: text is a defined name whose definition mentions sym (one level is enough for boxed pointers).
func (x *Exec) defMentions(st *State, text, sym string) bool {
	if strings.ContainsAny(text, " (") || strings.HasPrefix(text, "alloc!") || strings.HasPrefix(text, "alloc0!") {
		return false // allocation counters are defined from one another; that is not a reference
	}
	pfx := "(define-fun " + text + " "
	for i := len(st.defs) - 1; i >= 0; i-- {
		if strings.HasPrefix(st.defs[i], pfx) {
			return containsSym(st.defs[i][len(pfx):], sym)
		}
	}
	return false
}

// noteStore: a value is stored at location p: it escapes unless p lies in an unescaped local object.
func (x *Exec) noteStore(st *State, p Ptr, v Val) {
	if len(st.locals) == 0 {
		return
	}
	if len(p.Idx) > 0 {
		for _, l := range st.locals {
			if p.Idx[0].S == l.S {
				var ts []string
				valTerms(v, &ts)
				for _, t := range ts {
					for _, c := range st.locals {
						if c.S != l.S && (containsSym(t, c.S) || x.defMentions(st, t, c.S)) {
							st.inside[c.S] = l.S
						}
					}
				}
				return
			}
		}
	}
	x.escape(st, v, true)
}

// asPtr views a pointer-typed value as a location.
func (x *Exec) asPtr(v Val) Ptr {
	switch v := v.(type) {
	case Ptr:
		return v
	case Sc:
		pt, ok := v.GT.Underlying().(*types.Pointer)
		if !ok {
			fail("asPtr on non-pointer %s", v.GT)
		}
		return Ptr{Prefix: objPrefix(pt.Elem()), Idx: []Term{v.T}, Elem: pt.Elem(), GT: v.GT, Obj: true}
	}
	fail("asPtr on %T", v)
	return Ptr{}
}

// scalarOf returns the reference term of a pointer-like value.
func (x *Exec) scalarOf(v Val) Term {
	switch v := v.(type) {
	case Sc:
		return v.T
	case Ptr:
		if v.Obj {
			return v.Idx[0]
		}
		fail("interior pointer %s used as a value", v.Prefix)
	}
	fail("scalarOf %T", v)
	return Term{}
}

// nonNil is the term "pointer v is not nil".
func (x *Exec) nonNil(v Val) Term {
	switch v := v.(type) {
	case Ptr:
		if v.Obj {
			return mkNot(mkEq(v.Idx[0], intLit(0)))
		}
		if len(v.Idx) > 0 && strings.HasPrefix(v.Prefix, "elem:") {
			return tTrue
		}
		if len(v.Idx) > 0 {
			return mkNot(mkEq(v.Idx[0], intLit(0)))
		}
		return tTrue
	case Sc:
		if v.T.Sort == sIface {
			return mkNot(mkEq(v.T, tNilI))
		}
		return mkNot(mkEq(v.T, intLit(0)))
	case Sl:
		return mkNot(mkEq(v.Base, intLit(0)))
	}
	return tTrue
}

// typeTag returns the integer tag of a concrete Go type stored in an interface.
func (x *Exec) typeTag(t types.Type) int64 {
	s := typeStr(t)
	if n, ok := x.prog.tags[s]; ok {
		return n
	}
	n := int64(len(x.prog.tags) + 1)
	x.prog.tags[s] = n
	x.prog.tagNames[n] = s
	return n
}

// box converts a concrete value into an interface term.
func (x *Exec) box(st *State, v Val, t types.Type) Term {
	tag := intLit(x.typeTag(t))
	switch u := t.Underlying().(type) {
	case *types.Pointer, *types.Map, *types.Signature, *types.Chan:
		if c, ok := v.(Clo); ok {
			return app(sIface, "iptr", tag, x.cloRef(st, c))
		}
		return app(sIface, "iptr", tag, x.scalarOf(v))
	case *types.Basic:
		sc := v.(Sc)
		switch {
		case u.Info()&types.IsInteger != 0:
			if sc.T.Sort == sBV64 {
				x.note("bv64 mode: integer boxed into an interface keeps no value (fresh payload)")
				return app(sIface, "iint", tag, x.fresh("boxed", sInt))
			}
			return app(sIface, "iint", tag, sc.T)
		case u.Info()&types.IsFloat != 0:
			return app(sIface, "if64", tag, sc.T)
		case u.Info()&types.IsString != 0:
			return app(sIface, "istr", tag, sc.T)
		case u.Info()&types.IsBoolean != 0:
			return app(sIface, "ibool", tag, sc.T)
		}
	case *types.Interface:
		return v.(Sc).T
	}
	// opaque payload (struct, slice by value)
	return app(sIface, "iopq", tag, x.fresh("opq", sInt))
}

// unbox extracts the payload of concrete type t from an interface term.
func (x *Exec) unbox(it Term, t types.Type) Val {
	switch u := t.Underlying().(type) {
	case *types.Pointer, *types.Map, *types.Signature, *types.Chan:
		return Sc{irefOf(it), t}
	case *types.Basic:
		switch {
		case u.Info()&types.IsInteger != 0:
			return Sc{app(sInt, "iival", it), t}
		case u.Info()&types.IsFloat != 0:
			return Sc{app(sF64, "ifval", it), t}
		case u.Info()&types.IsString != 0:
			return Sc{app(sStr, "isval", it), t}
		case u.Info()&types.IsBoolean != 0:
			return Sc{app(sBool, "ibval", it), t}
		}
	}
	fail("unbox to %s unsupported", t)
	return nil
}

// hasTag is the test "interface it holds dynamic type t".
func (x *Exec) hasTag(it Term, t types.Type) Term {
	tag := intLit(x.typeTag(t))
	switch u := t.Underlying().(type) {
	case *types.Pointer, *types.Map, *types.Signature, *types.Chan:
		return mkAnd(app(sBool, "(_ is iptr)", it), mkEq(app(sInt, "itag", it), tag))
	case *types.Basic:
		switch {
		case u.Info()&types.IsInteger != 0:
			return mkAnd(app(sBool, "(_ is iint)", it), mkEq(app(sInt, "itagi", it), tag))
		case u.Info()&types.IsFloat != 0:
			return mkAnd(app(sBool, "(_ is if64)", it), mkEq(app(sInt, "itagf", it), tag))
		case u.Info()&types.IsString != 0:
			return mkAnd(app(sBool, "(_ is istr)", it), mkEq(app(sInt, "itags", it), tag))
		case u.Info()&types.IsBoolean != 0:
			return mkAnd(app(sBool, "(_ is ibool)", it), mkEq(app(sInt, "itagb", it), tag))
		}
	}
	return mkAnd(app(sBool, "(_ is iopq)", it), mkEq(app(sInt, "itago", it), tag))
}

// markBoundary records the current heap as one in which every object invariant holds.
func (st *State) markBoundary() {
	b := st.clone()
	b.noSide = true
	b.boundary = nil
	st.boundary = b
	// object invariants assumed so far were about the previous boundary heap; they may be assumed afresh in this one
	st.invSeen = map[string]bool{}
}

// elemPrefix is the heap class of the elements of a slice with the given backing-store reference:
// slices loaded from an owned field live in a class of their own.
func (x *Exec) elemPrefix(base Term, et types.Type) string {
	if o, ok := x.own[base.S]; ok {
		return "elem:" + typeStr(et) + "@" + o
	}
	return "elem:" + typeStr(et)
}

// irefOf is (iref it), simplified when it is syntactically a boxed pointer.
func irefOf(it Term) Term {
	if strings.HasPrefix(it.S, "(iptr ") && balanced(it.S) {
		body := it.S[6 : len(it.S)-1]
		n := sortEnd(body)
		if n < len(body) {
			r := strings.TrimSpace(body[n:])
			if balanced(r) || !strings.ContainsAny(r, " ()") {
				return Term{r, sInt}
			}
		}
	}
	return app(sInt, "iref", it)
}

// noteBound remembers that term t was known to be allocated (t < alloc) when the allocation counter
// had the given generation; objects created later are therefore different from t.
func (x *Exec) noteBound(st *State, t Term) {
	if st.noSide || st.inQuant > 0 || x.freshRefs[t.S] {
		return
	}
	n := allocNum(st.alloc.S)
	if old, ok := x.boundOf[t.S]; !ok || n < old {
		x.boundOf[t.S] = n
	}
}

func allocNum(s string) int {
	i := strings.LastIndex(s, "!")
	if i < 0 {
		return 1 << 30
	}
	n := 0
	for _, c := range s[i+1:] {
		if c < '0' || c > '9' {
			return 1 << 30
		}
		n = n*10 + int(c-'0')
	}
	return n
}

// noteEntryRead: a reference read from the heap as it was at function entry was allocated before the call
// (heap closure), hence differs from every object this activation creates.
func (x *Exec) noteEntryRead(raw, named Term) {
	if named.Sort != sInt || !strings.HasPrefix(raw.S, "(select ") {
		return
	}
	rest := raw.S[len("(select "):]
	end := strings.IndexByte(rest, ' ')
	if strings.HasPrefix(rest, "|") {
		end = strings.IndexByte(rest[1:], '|') + 2
	}
	if end <= 0 || end > len(rest) {
		return
	}
	cls := strings.Trim(rest[:end], "| ")
	if strings.HasPrefix(cls, "H:") && strings.HasSuffix(cls, "@0") {
		if old, ok := x.boundOf[named.S]; !ok || 1 < old {
			x.boundOf[named.S] = 1
		}
		x.boundOf[raw.S] = 1
	}
}

// distinctRefs: the two reference terms are known (syntactically / by allocation order) to differ.
func (x *Exec) distinctRefs(a, b Term) bool {
	if a.S == b.S {
		return false
	}
	// a conditional reference (e.g. the base of an append result) is distinct if all its alternatives are
	if al, ok := x.alts[a.S]; ok {
		for _, t := range al {
			if !x.distinctRefs(t, b) {
				return false
			}
		}
		return true
	}
	if al, ok := x.alts[b.S]; ok {
		for _, t := range al {
			if !x.distinctRefs(a, t) {
				return false
			}
		}
		return true
	}
	if x.freshRefs[a.S] && x.freshRefs[b.S] {
		return true
	}
	// a was allocated at or after allocation point n (assumed fresh), b before allocation point m <= n
	if n, ok := x.lowerOf[a.S]; ok {
		if m, ok := x.boundOf[b.S]; ok && m <= n {
			return true
		}
	}
	if n, ok := x.lowerOf[b.S]; ok {
		if m, ok := x.boundOf[a.S]; ok && m <= n {
			return true
		}
	}
	if n, ok := x.boundOf[b.S]; ok && x.freshRefs[a.S] && n <= allocNum(a.S) {
		return true
	}
	if n, ok := x.boundOf[a.S]; ok && x.freshRefs[b.S] && n <= allocNum(b.S) {
		return true
	}
	return false
}

// outerSelect is (select a idx) for a heap class of arity >= 1, looking through the stores made on this path
// as long as the outer index is syntactically equal (hit) or known to be a different object (miss).
func (x *Exec) outerSelect(a, idx Term) Term {
	cur := a
	for {
		info, ok := x.stores[cur.S]
		if !ok {
			break
		}
		if info.idx[0].S == idx.S {
			if len(info.idx) == 1 {
				return info.val
			}
			// element store: the inner array is the previous inner array with one cell updated
			return mkStore(x.outerSelect(info.prev, idx), info.idx[1], info.val)
		}
		if x.distinctRefs(info.idx[0], idx) {
			cur = info.prev
			continue
		}
		break
	}
	return mkSelect(cur, idx)
}

// setClassStore: class := store(a, idx, inner), remembered for read-over-write.
func (x *Exec) setClassStore(st *State, class string, a, idx, inner Term) {
	x.setClass(st, class, mkStore(a, idx, inner))
	x.stores[st.heap[class].S] = storeInfo{prev: a, idx: []Term{idx}, val: inner}
}
