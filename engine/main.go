package main

import (
	"flag"
	"fmt"
	"os"
	"path/filepath"
	"sort"
	"strings"
	"time"
)

var (
	verifDir = "/verif"
	repoDir  = "/repo"
)

func main() {
	if len(os.Args) < 2 {
		fmt.Fprintln(os.Stderr, "usage: evyvc check|dump|list|replay ...")
		os.Exit(2)
	}
	if d := os.Getenv("EVYVC_VERIF"); d != "" {
		verifDir = d
	}
	if d := os.Getenv("EVYVC_REPO"); d != "" {
		repoDir = d
	}
	switch os.Args[1] {
	case "check":
		os.Exit(cmdCheck(os.Args[2:]))
	case "dump":
		os.Exit(cmdDump(os.Args[2:]))
	case "list":
		os.Exit(cmdList(os.Args[2:]))
	case "replay":
		os.Exit(cmdReplay(os.Args[2:]))
	default:
		fmt.Fprintln(os.Stderr, "unknown command", os.Args[1])
		os.Exit(2)
	}
}

func loadAll(prop string) (*Program, error) {
	dir := repoDir
	patterns := []string{".", "./pkg/lexer", "./pkg/parser", "./pkg/evaluator", "./pkg/bytecode", "./pkg/cli", "./pkg/cli/svg"}
	if prop == "C20" {
		dir = filepath.Join(repoDir, "learn")
		patterns = []string{"./pkg/learn"}
	}
	p, err := loadProgram(repoDir, patterns, dir)
	if err != nil {
		return nil, err
	}
	if err := p.loadSpecs(filepath.Join(verifDir, "spec")); err != nil {
		return nil, err
	}
	return p, nil
}

// contractsFor lists the contracts whose body must be verified for a property.
func contractsFor(p *Program, prop string) []*Contract {
	var out []*Contract
	for _, k := range p.specs.Order {
		c := p.specs.Funcs[k]
		if c.Trusted || c.Iface || c.NoVerify || strings.HasPrefix(c.Key, "functype:") {
			continue
		}
		if c.Pkg == "" {
			continue
		}
		if prop == "" || contractServes(c, prop) {
			out = append(out, c)
		}
	}
	return out
}

func contractServes(c *Contract, prop string) bool {
	if hasProp(c.Props, prop) {
		return true
	}
	for _, cl := range c.Requires {
		if hasProp(cl.Props, prop) {
			return true
		}
	}
	for _, cl := range c.Ensures {
		if hasProp(cl.Props, prop) {
			return true
		}
	}
	for _, l := range c.Loops {
		for _, cl := range l.Invariants {
			if hasProp(cl.Props, prop) {
				return true
			}
		}
	}
	return false
}

func cmdList(args []string) int {
	p, err := loadAll("")
	if err != nil {
		fmt.Fprintln(os.Stderr, err)
		return 2
	}
	for _, k := range p.specs.Order {
		c := p.specs.Funcs[k]
		fmt.Printf("%-60s props=%v trusted=%v\n", k, c.Props, c.Trusted)
	}
	return 0
}

func cmdDump(args []string) int {
	fs := flag.NewFlagSet("dump", flag.ExitOnError)
	fn := fs.String("func", "", "contract key")
	prop := fs.String("prop", "", "property filter")
	smt := fs.Bool("smt", false, "keep SMT files for all obligations")
	tier := fs.String("tier", "quick", "")
	coversOnly := fs.Bool("covers", false, "only solve the vacuity covers")
	skip := fs.String("skip", "", "comma-separated contract keys to skip")
	noSolve := fs.Bool("nosolve", false, "only generate the obligations and print their number")
	fs.Parse(args)
	p, err := loadAll(*prop)
	if err != nil {
		fmt.Fprintln(os.Stderr, err)
		return 2
	}
	var cs []*Contract
	if *fn != "" {
		c := p.specs.Funcs[*fn]
		if c == nil {
			fmt.Fprintln(os.Stderr, "no contract", *fn)
			return 2
		}
		cs = []*Contract{c}
	} else {
		cs = contractsFor(p, *prop)
	}
	work := filepath.Join(outDir(), "work", "dump")
	os.RemoveAll(work)
	var results []*FuncResult
	var allObls []*Obligation
	if *skip != "" {
		var keep []*Contract
		for _, c := range cs {
			if !strings.Contains(","+*skip+",", ","+c.Key+",") {
				keep = append(keep, c)
			}
		}
		cs = keep
	}
	for _, c := range cs {
		r := verifyFunc(p, c, *prop)
		if *coversOnly {
			var keep []*Obligation
			for _, o := range r.Obls {
				if o.Cover {
					keep = append(keep, o)
				}
			}
			r.Obls = keep
		}
		results = append(results, r)
		allObls = append(allObls, r.Obls...)
	}
	if *noSolve {
		for _, r := range results {
			fmt.Printf("== %s: %d paths, %d obligation instances %s\n", r.Key, r.Paths, len(r.Obls), r.Err)
			for _, a := range r.Assumptions {
				fmt.Printf("  assume: %s\n", a)
			}
		}
		return 0
	}
	tAll := time.Now()
	discharge(allObls, work, *tier, 8)
	fmt.Printf("solved %d obligation instances in %.1fs\n", len(allObls), time.Since(tAll).Seconds())
	for ci, c := range cs {
		t0 := time.Now()
		r := results[ci]
		if r.Err != "" {
			fmt.Printf("== %s: ERROR %s\n", c.Key, r.Err)
			continue
		}
		fmt.Printf("== %s: %d paths, %d obligation instances, %.1fs\n", c.Key, r.Paths, len(r.Obls), time.Since(t0).Seconds())
		agg := aggregate(r.Obls)
		for _, a := range agg {
			mark := "ok  "
			if !a.ok() {
				mark = "FAIL"
			}
			if a.Cover && a.Status != "sat" {
				mark = "NOTE"
				if a.Status == "unsat" {
					mark = "UNREACHABLE"
				}
			}
			fmt.Printf("  %s %-50s %-8s inst=%d %.2fs %s\n", mark, a.Name, a.Status, a.N, a.Secs, a.Solver)
			if a.Cover && a.Status == "unsat" {
				fmt.Printf("       %s\n", a.Text)
			}
			if !a.ok() {
				fmt.Printf("       %s\n", a.Text)
				for _, o := range a.Inst {
					if o.Status != "unsat" && !o.Cover {
						fmt.Printf("       path %d: %s %s\n", o.Path, o.Status, o.Output)
						if o.Model != "" && *smt {
							fmt.Println(o.Model)
						}
						break
					}
				}
			}
		}
		for _, a := range r.Assumptions {
			fmt.Printf("  assume: %s\n", a)
		}
	}
	return 0
}

// Agg is an obligation aggregated over all paths.
type Agg struct {
	Name   string
	Kind   string
	Props  []string
	Text   string
	Status string // unsat (all paths), sat, unknown
	N      int
	Secs   float64
	Solver string
	Inst   []*Obligation
	Must   bool
	Cover  bool
	Func   string
	Pos    string
}

func (a *Agg) ok() bool {
	if a.Cover {
		if strings.Contains(a.Name, "cover-return") {
			return true // informational; at least one reachable return is required per function (checked separately)
		}
		return a.Status != "unsat"
	}
	if a.Must {
		return a.Status != "unsat"
	}
	return a.Status == "unsat"
}

func aggregate(obls []*Obligation) []*Agg {
	m := map[string]*Agg{}
	var order []string
	for _, o := range obls {
		a := m[o.Name]
		if a == nil {
			a = &Agg{Name: o.Name, Kind: o.Kind, Props: o.Props, Text: o.Text, Status: "unsat", Must: o.Must, Cover: o.Cover, Func: o.Func, Pos: o.Pos}
			if o.Cover {
				a.Status = "unsat"
			}
			m[o.Name] = a
			order = append(order, o.Name)
		}
		a.N++
		a.Secs += o.Secs
		a.Inst = append(a.Inst, o)
		if a.Solver == "" || (o.Solver != "syntactic" && o.Solver != "") {
			a.Solver = o.Solver
		}
		if o.Cover {
			if o.Status == "sat" {
				a.Status = "sat"
			} else if o.Status != "unsat" && a.Status != "sat" {
				a.Status = "unknown"
			}
			continue
		}
		switch o.Status {
		case "sat":
			a.Status = "sat"
		case "unsat":
		default:
			if a.Status != "sat" {
				a.Status = "unknown"
			}
		}
	}
	sort.Strings(order)
	var out []*Agg
	for _, n := range order {
		out = append(out, m[n])
	}
	return out
}
