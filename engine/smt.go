package main

import (
	"fmt"
	"math"
	"sort"
	"strings"
)

// Term is an SMT-LIB term (text) together with its sort.
type Term struct {
	S    string
	Sort string
}

const (
	sInt   = "Int"
	sBool  = "Bool"
	sF64   = "F64"
	sStr   = "Str"
	sIface = "Iface"
	sBV64  = "(_ BitVec 64)"
)

func arr(idx, el string) string { return "(Array " + idx + " " + el + ")" }

var (
	tTrue  = Term{"true", sBool}
	tFalse = Term{"false", sBool}
	tNilI  = Term{"inil", sIface}
)

func intLit(n int64) Term {
	if n < 0 {
		return Term{fmt.Sprintf("(- %d)", -n), sInt}
	}
	return Term{fmt.Sprintf("%d", n), sInt}
}

func bigIntLit(s string) Term {
	if strings.HasPrefix(s, "-") {
		return Term{"(- " + s[1:] + ")", sInt}
	}
	return Term{s, sInt}
}

func bvLit(n int64) Term {
	return Term{fmt.Sprintf("#x%016x", uint64(n)), sBV64}
}

func f64Lit(f float64) Term {
	b := math.Float64bits(f)
	sign := b >> 63
	exp := (b >> 52) & 0x7ff
	man := b & ((1 << 52) - 1)
	return Term{fmt.Sprintf("(fp #b%b #b%011b #b%052b)", sign, exp, man), sF64}
}

func boolLit(b bool) Term {
	if b {
		return tTrue
	}
	return tFalse
}

func litVal(t Term) (int64, bool) {
	s := t.S
	neg := false
	if strings.HasPrefix(s, "(- ") && strings.HasSuffix(s, ")") && !strings.Contains(s[3:], " ") {
		neg = true
		s = s[3 : len(s)-1]
	}
	if s == "" || len(s) > 17 {
		return 0, false
	}
	var n int64
	for _, c := range s {
		if c < '0' || c > '9' {
			return 0, false
		}
		n = n*10 + int64(c-'0')
	}
	if neg {
		n = -n
	}
	return n, true
}

func app(sort string, op string, args ...Term) Term {
	if sort == sInt && len(args) == 2 && (op == "+" || op == "-") && args[0].Sort == sInt && args[1].Sort == sInt {
		a, aok := litVal(args[0])
		b, bok := litVal(args[1])
		switch {
		case aok && bok && op == "+":
			return intLit(a + b)
		case aok && bok && op == "-":
			return intLit(a - b)
		case bok && b == 0:
			return args[0]
		case aok && a == 0 && op == "+":
			return args[1]
		}
	}
	if sort == sBool && len(args) == 2 && (op == "<=" || op == "<" || op == ">=" || op == ">") {
		a, aok := litVal(args[0])
		b, bok := litVal(args[1])
		if aok && bok {
			switch op {
			case "<=":
				return boolLit(a <= b)
			case "<":
				return boolLit(a < b)
			case ">=":
				return boolLit(a >= b)
			}
			return boolLit(a > b)
		}
	}
	if len(args) == 1 && args[0].Sort == sIface && strings.HasPrefix(args[0].S, "(i") {
		// accessors and testers applied to a constructor term
		if parts := sexprArgs(args[0].S); len(parts) == 3 {
			switch op {
			case "(_ is iptr)", "(_ is iint)", "(_ is if64)", "(_ is istr)", "(_ is ibool)", "(_ is iopq)":
				return boolLit("(_ is "+parts[0]+")" == op)
			case "itag":
				if parts[0] == "iptr" {
					return Term{parts[1], sInt}
				}
			case "iref":
				if parts[0] == "iptr" {
					return Term{parts[2], sInt}
				}
			}
		}
	}
	var sb strings.Builder
	sb.WriteString("(")
	sb.WriteString(op)
	for _, a := range args {
		sb.WriteString(" ")
		sb.WriteString(a.S)
	}
	sb.WriteString(")")
	return Term{sb.String(), sort}
}

func mkNot(a Term) Term {
	switch a.S {
	case "true":
		return tFalse
	case "false":
		return tTrue
	}
	if strings.HasPrefix(a.S, "(not ") && balanced(a.S[5:len(a.S)-1]) {
		return Term{a.S[5 : len(a.S)-1], sBool}
	}
	return app(sBool, "not", a)
}

func balanced(s string) bool {
	d := 0
	inq := false
	for i := 0; i < len(s); i++ {
		c := s[i]
		if c == '|' {
			inq = !inq
		}
		if inq {
			continue
		}
		if c == '(' {
			d++
		} else if c == ')' {
			d--
			if d < 0 {
				return false
			}
			if d == 0 && i != len(s)-1 {
				return false
			}
		} else if c == ' ' && d == 0 {
			return false
		}
	}
	return d == 0
}

func mkAnd(ts ...Term) Term {
	var out []Term
	for _, t := range ts {
		if t.S == "true" {
			continue
		}
		if t.S == "false" {
			return tFalse
		}
		out = append(out, t)
	}
	if len(out) == 0 {
		return tTrue
	}
	if len(out) == 1 {
		return out[0]
	}
	return app(sBool, "and", out...)
}

func mkOr(ts ...Term) Term {
	var out []Term
	for _, t := range ts {
		if t.S == "false" {
			continue
		}
		if t.S == "true" {
			return tTrue
		}
		out = append(out, t)
	}
	if len(out) == 0 {
		return tFalse
	}
	if len(out) == 1 {
		return out[0]
	}
	return app(sBool, "or", out...)
}

func mkImplies(a, b Term) Term {
	if a.S == "true" {
		return b
	}
	if a.S == "false" || b.S == "true" {
		return tTrue
	}
	if b.S == "false" {
		return mkNot(a)
	}
	return app(sBool, "=>", a, b)
}

func mkEq(a, b Term) Term {
	if av, aok := litVal(a); aok && a.Sort == sInt {
		if bv, bok := litVal(b); bok && b.Sort == sInt {
			return boolLit(av == bv)
		}
	}
	if a.S == b.S {
		if a.Sort == sF64 {
			// structural identity of FP terms; callers wanting IEEE == use fpEq
			return tTrue
		}
		return tTrue
	}
	if a.Sort == sBool {
		if b.S == "true" {
			return a
		}
		if a.S == "true" {
			return b
		}
		if b.S == "false" {
			return mkNot(a)
		}
		if a.S == "false" {
			return mkNot(b)
		}
	}
	return app(sBool, "=", a, b)
}

func mkIte(c, a, b Term) Term {
	if c.S == "true" {
		return a
	}
	if c.S == "false" {
		return b
	}
	if a.S == b.S {
		return a
	}
	if a.Sort == sBool {
		if a.S == "true" && b.S == "false" {
			return c
		}
		if a.S == "false" && b.S == "true" {
			return mkNot(c)
		}
	}
	return app(a.Sort, "ite", c, a, b)
}

func mkSelect(a Term, i Term) Term {
	// a.Sort = (Array I E)
	_, el := splitArraySort(a.Sort)
	return app(el, "select", a, i)
}

func mkStore(a, i, v Term) Term {
	return app(a.Sort, "store", a, i, v)
}

// splitArraySort splits "(Array I E)" into I and E.
func splitArraySort(s string) (string, string) {
	if !strings.HasPrefix(s, "(Array ") {
		panic("not an array sort: " + s)
	}
	body := s[len("(Array ") : len(s)-1]
	// first sort
	i := sortEnd(body)
	return body[:i], strings.TrimSpace(body[i:])
}

func sortEnd(s string) int {
	if s[0] != '(' {
		i := strings.IndexByte(s, ' ')
		if i < 0 {
			return len(s)
		}
		return i
	}
	d := 0
	for i := 0; i < len(s); i++ {
		if s[i] == '(' {
			d++
		} else if s[i] == ')' {
			d--
			if d == 0 {
				return i + 1
			}
		}
	}
	return len(s)
}

func quoteSym(s string) string {
	s = strings.ReplaceAll(s, "|", "!")
	s = strings.ReplaceAll(s, "\\", "/")
	simple := true
	for _, c := range s {
		if !(c >= 'a' && c <= 'z' || c >= 'A' && c <= 'Z' || c >= '0' && c <= '9' || c == '_' || c == '.' || c == '$' || c == '@' || c == '!' || c == '#') {
			simple = false
			break
		}
	}
	if simple && len(s) > 0 && !(s[0] >= '0' && s[0] <= '9') && s[0] != '#' {
		return s
	}
	return "|" + s + "|"
}

const prelude = `(set-option :produce-models true)
(set-logic ALL)
(define-sort F64 () (_ FloatingPoint 11 53))
(declare-sort Str 0)
(declare-datatypes ((Iface 0)) (((inil) (iptr (itag Int) (iref Int)) (iint (itagi Int) (iival Int)) (if64 (itagf Int) (ifval F64)) (istr (itags Int) (isval Str)) (ibool (itagb Int) (ibval Bool)) (iopq (itago Int) (iid Int)))))
(define-fun tagof ((x Iface)) Int (ite ((_ is iptr) x) (itag x) (ite ((_ is iint) x) (itagi x) (ite ((_ is if64) x) (itagf x) (ite ((_ is istr) x) (itags x) (ite ((_ is ibool) x) (itagb x) (ite ((_ is iopq) x) (itago x) 0)))))))
(declare-fun str.len_ (Str) Int)
(declare-fun str.cat_ (Str Str) Str)
(declare-fun str.lt_ (Str Str) Bool)
(declare-fun str.at_ (Str Int) Int)
(declare-fun str.runes_ (Str) (Array Int Int))
(declare-fun str.rlen_ (Str) Int)
(declare-fun str.fromrunes_ ((Array Int Int) Int Int) Str)
(declare-fun str.fromrune_ (Int) Str)
(declare-fun str.sub_ (Str Int Int) Str)
(declare-fun str.frombytes_ ((Array Int Int) Int Int) Str)
(declare-fun str.bytes_ (Str) (Array Int Int))
(declare-fun wraps_ (Iface Iface) Bool)
(assert (forall ((e Iface)) (! (wraps_ e e) :pattern ((wraps_ e e)))))
(declare-fun i2f_ (Int) F64)
(declare-fun f2i_ (F64) Int)
(assert (forall ((a Int) (b Int)) (! (=> (<= a b) (fp.leq (i2f_ a) (i2f_ b))) :pattern ((i2f_ a) (i2f_ b)))))
(assert (forall ((a Int) (b Int)) (! (=> (and (< a b) (<= (- 9007199254740992) a) (<= b 9007199254740992)) (fp.lt (i2f_ a) (i2f_ b))) :pattern ((i2f_ a) (i2f_ b)))))
(assert (forall ((f F64)) (! (=> (and (fp.leq ((_ to_fp 11 53) RNE 0.0) f) (fp.lt f ((_ to_fp 11 53) RNE 9223372036854775808.0))) (and (<= 0 (f2i_ f)) (fp.leq (i2f_ (f2i_ f)) f))) :pattern ((f2i_ f)))))
(assert (fp.eq (i2f_ 0) ((_ to_fp 11 53) RNE 0.0)))
(assert (forall ((f F64)) (! (=> (and (fp.leq ((_ to_fp 11 53) RNE 1.0) f) (fp.lt f ((_ to_fp 11 53) RNE 9223372036854775808.0))) (<= 1 (f2i_ f))) :pattern ((f2i_ f)))))
(declare-fun imul_ (Int Int) Int)
(assert (forall ((a Int) (b Int)) (! (= (imul_ a b) (imul_ b a)) :pattern ((imul_ a b)))))
(assert (forall ((a Int)) (! (= (imul_ a 0) 0) :pattern ((imul_ a 0)))))
(assert (forall ((a Int) (b Int)) (! (= (imul_ a (+ b 1)) (+ (imul_ a b) a)) :pattern ((imul_ a (+ b 1))))))
(assert (forall ((a Int) (b Int)) (! (=> (and (<= 0 a) (<= 0 b)) (<= 0 (imul_ a b))) :pattern ((imul_ a b)))))
(define-fun gdiv ((a Int) (b Int)) Int (ite (>= a 0) (ite (> b 0) (div a b) (- (div a (- b)))) (ite (> b 0) (- (div (- a) b)) (div (- a) (- b)))))
(define-fun gmod ((a Int) (b Int)) Int (ite (>= a 0) (mod a (abs b)) (- (mod (- a) (abs b)))))
`

// Decls is an ordered registry of SMT declarations.
type Decls struct {
	order []string
	text  map[string]string
}

func newDecls() *Decls { return &Decls{text: map[string]string{}} }

func (d *Decls) add(name, text string) {
	if _, ok := d.text[name]; ok {
		return
	}
	d.text[name] = text
	d.order = append(d.order, name)
}

func (d *Decls) all() string {
	var sb strings.Builder
	for _, n := range d.order {
		sb.WriteString(d.text[n])
		sb.WriteString("\n")
	}
	return sb.String()
}

func sortedKeys[V any](m map[string]V) []string {
	ks := make([]string, 0, len(m))
	for k := range m {
		ks = append(ks, k)
	}
	sort.Strings(ks)
	return ks
}

// sexprArgs splits "(f a b ...)" into [f a b ...] at the top level.
func sexprArgs(s string) []string {
	if len(s) < 2 || s[0] != '(' || s[len(s)-1] != ')' {
		return nil
	}
	body := s[1 : len(s)-1]
	var out []string
	d, inq, start := 0, false, 0
	for i := 0; i < len(body); i++ {
		c := body[i]
		switch {
		case c == '|':
			inq = !inq
		case inq:
		case c == '(':
			d++
		case c == ')':
			d--
		case c == ' ' && d == 0:
			if i > start {
				out = append(out, body[start:i])
			}
			start = i + 1
		}
	}
	if start < len(body) {
		out = append(out, body[start:])
	}
	return out
}
