package main

import (
	"fmt"
	"go/ast"
	"go/constant"
	"go/parser"
	"go/token"
	"go/types"
	"os"
	"strconv"
	"strings"

	"golang.org/x/tools/go/ssa"
)

// specNode is a parsed specification expression.
type specNode struct {
	op   string // "", "==>", "<==>"
	l, r *specNode
	e    ast.Expr
	ph   map[string]*specNode
	text string
}

var specCache = map[string]*specNode{}

func parseSpecExpr(text string) *specNode {
	if n, ok := specCache[text]; ok {
		return n
	}
	n := parseSpecTop(strings.TrimSpace(text), map[string]*specNode{})
	specCache[text] = n
	return n
}

func parseSpecTop(text string, ph map[string]*specNode) *specNode {
	if i := indexTop(text, "<==>"); i >= 0 {
		return &specNode{op: "<==>", l: parseSpecTop(strings.TrimSpace(text[:i]), ph), r: parseSpecTop(strings.TrimSpace(text[i+4:]), ph), ph: ph, text: text}
	}
	if i := indexTop(text, "==>"); i >= 0 {
		return &specNode{op: "==>", l: parseSpecTop(strings.TrimSpace(text[:i]), ph), r: parseSpecTop(strings.TrimSpace(text[i+3:]), ph), ph: ph, text: text}
	}
	low := lowerGroups(text, ph)
	e, err := parser.ParseExpr(low)
	if err != nil {
		fail("cannot parse spec expression %q: %v", text, err)
	}
	return &specNode{e: e, ph: ph, text: text}
}

// lowerGroups replaces parenthesised pieces containing ==> by placeholders.
func lowerGroups(text string, ph map[string]*specNode) string {
	if !strings.Contains(text, "==>") {
		return text
	}
	var sb strings.Builder
	i := 0
	for i < len(text) {
		c := text[i]
		if c == '"' || c == '`' || c == '\'' {
			j := i + 1
			for j < len(text) && text[j] != c {
				if text[j] == '\\' {
					j++
				}
				j++
			}
			sb.WriteString(text[i:min(j+1, len(text))])
			i = j + 1
			continue
		}
		if c != '(' {
			sb.WriteByte(c)
			i++
			continue
		}
		// find matching paren
		d := 0
		j := i
		for ; j < len(text); j++ {
			if text[j] == '(' {
				d++
			} else if text[j] == ')' {
				d--
				if d == 0 {
					break
				}
			}
		}
		inner := text[i+1 : j]
		parts := splitTop(inner, ',')
		sb.WriteByte('(')
		for pi, p := range parts {
			if pi > 0 {
				sb.WriteByte(',')
			}
			if indexTop(p, "==>") >= 0 {
				name := fmt.Sprintf("__ph%d", len(ph))
				ph[name] = nil
				ph[name] = parseSpecTop(strings.TrimSpace(p), ph)
				sb.WriteString(" " + name + " ")
			} else {
				sb.WriteString(lowerGroups(p, ph))
			}
		}
		sb.WriteByte(')')
		i = j + 1
	}
	return sb.String()
}

// ArrV is a spec-level mathematical array (e.g. runes(s)).
type ArrV struct {
	T    Term
	Elem types.Type
}

func (v ArrV) GoType() types.Type { return nil }

// TypeV is a type used as an argument of a spec builtin.
type TypeV struct{ T types.Type }

func (v TypeV) GoType() types.Type { return nil }

// specEnv evaluates specification expressions in a state.
type specEnv struct {
	x     *Exec
	st    *State
	old   *State
	vars  map[string]Val
	fr    *Frame
	at    *ssa.BasicBlock // program point for local-name resolution
	c     *Contract
	pkg   *types.Package
	bound map[string]Val
	iter  *ssa.Range
}

func (ev *specEnv) evalBool(text string) Term {
	n := parseSpecExpr(text)
	v := ev.eval(n)
	sc, ok := v.(Sc)
	if !ok || sc.T.Sort != sBool {
		fail("spec expression is not boolean: %s", text)
	}
	return sc.T
}

func (ev *specEnv) eval(n *specNode) Val {
	switch n.op {
	case "==>":
		a := ev.eval(n.l).(Sc).T
		b := ev.eval(n.r).(Sc).T
		return Sc{mkImplies(a, b), types.Typ[types.Bool]}
	case "<==>":
		a := ev.eval(n.l).(Sc).T
		b := ev.eval(n.r).(Sc).T
		return Sc{mkEq(a, b), types.Typ[types.Bool]}
	}
	return ev.expr(n.e, n)
}

func (ev *specEnv) scope() *types.Package {
	if ev.pkg != nil {
		return ev.pkg
	}
	if ev.c != nil && ev.c.Pkg != "" {
		if p := ev.x.prog.typesPkg(ev.c.Pkg); p != nil {
			return p
		}
	}
	if ev.x.fn != nil && ev.x.fn.Package() != nil {
		return ev.x.fn.Package().Pkg
	}
	return nil
}

func untypedInt(n int64) Val { return Sc{intLit(n), types.Typ[types.UntypedInt]} }

func (ev *specEnv) expr(e ast.Expr, n *specNode) Val {
	x := ev.x
	switch e := e.(type) {
	case *ast.ParenExpr:
		return ev.expr(e.X, n)
	case *ast.BasicLit:
		switch e.Kind {
		case token.INT:
			v := constant.MakeFromLiteral(e.Value, token.INT, 0)
			return Sc{bigIntLit(v.ExactString()), types.Typ[types.UntypedInt]}
		case token.FLOAT:
			f, _ := strconv.ParseFloat(e.Value, 64)
			return Sc{f64Lit(f), types.Typ[types.Float64]}
		case token.STRING:
			s, _ := strconv.Unquote(e.Value)
			return Sc{x.strLit(s), types.Typ[types.String]}
		case token.CHAR:
			s, _, _, _ := strconv.UnquoteChar(e.Value[1:len(e.Value)-1], '\'')
			return Sc{intLit(int64(s)), types.Typ[types.UntypedRune]}
		}
	case *ast.Ident:
		return ev.ident(e.Name, n)
	case *ast.SelectorExpr:
		if id, ok := e.X.(*ast.Ident); ok {
			if _, isVar := ev.lookupVar(id.Name); !isVar {
				if p := ev.importedPkg(id.Name); p != nil {
					return ev.pkgObject(p, e.Sel.Name)
				}
			}
		}
		base := ev.expr(e.X, n)
		return ev.field(base, e.Sel.Name)
	case *ast.StarExpr:
		p := ev.expr(e.X, n)
		pt := x.asPtr(p)
		v := x.load(ev.st, pt, pt.Elem)
		x.assumeLoaded(ev.st, v)
		return v
	case *ast.UnaryExpr:
		v := ev.expr(e.X, n)
		switch e.Op {
		case token.NOT:
			return Sc{mkNot(v.(Sc).T), types.Typ[types.Bool]}
		case token.SUB:
			sc := ev.coerceInt(v.(Sc))
			switch sc.T.Sort {
			case sF64:
				return Sc{app(sF64, "fp.neg", sc.T), sc.GT}
			case sBV64:
				return Sc{app(sBV64, "bvneg", sc.T), sc.GT}
			}
			return Sc{app(sInt, "-", sc.T), sc.GT}
		case token.AND:
			return ev.evalLoc(&specNode{e: e.X, ph: n.ph})
		}
	case *ast.BinaryExpr:
		return ev.binary(e, n)
	case *ast.IndexExpr:
		base := ev.expr(e.X, n)
		idx := ev.expr(e.Index, n)
		return ev.index(base, idx)
	case *ast.TypeAssertExpr:
		v0 := ev.expr(e.X, n)
		t := ev.resolveType(e.Type)
		v, ok := v0.(Sc)
		if !ok {
			return retype(v0, t) // already a concrete (non-interface) value, e.g. a recorded call argument
		}
		if v.T.Sort != sIface {
			return Sc{v.T, t}
		}
		return x.unbox(v.T, t)
	case *ast.CallExpr:
		return ev.callExpr(e, n)
	case *ast.SliceExpr:
		base := ev.expr(e.X, n).(Sl)
		lo := intLit(0)
		hi := base.Len
		if e.Low != nil {
			lo = ev.coerceInt(ev.expr(e.Low, n).(Sc)).T
		}
		if e.High != nil {
			hi = ev.coerceInt(ev.expr(e.High, n).(Sc)).T
		}
		return Sl{base.Base, app(sInt, "+", base.Off, lo), app(sInt, "-", hi, lo), app(sInt, "-", base.Cap, lo), base.GT}
	}
	fail("unsupported spec expression %T in %q", e, n.text)
	return nil
}

func (ev *specEnv) lookupVar(name string) (Val, bool) {
	if v, ok := ev.bound[name]; ok {
		return v, true
	}
	if v, ok := ev.vars[name]; ok {
		return v, true
	}
	if ev.fr != nil {
		if v, ok := ev.local(name); ok {
			return v, true
		}
	}
	return nil, false
}

func (ev *specEnv) ident(name string, n *specNode) Val {
	if strings.HasPrefix(name, "__ph") {
		return ev.eval(n.ph[name])
	}
	switch name {
	case "true":
		return Sc{tTrue, types.Typ[types.Bool]}
	case "false":
		return Sc{tFalse, types.Typ[types.Bool]}
	case "nil":
		return Sc{intLit(0), types.Typ[types.UntypedNil]}
	}
	if v, ok := ev.lookupVar(name); ok {
		return v
	}
	if p := ev.scope(); p != nil {
		if obj := p.Scope().Lookup(name); obj != nil {
			return ev.object(obj)
		}
	}
	if obj := types.Universe.Lookup(name); obj != nil {
		if tn, ok := obj.(*types.TypeName); ok {
			return TypeV{tn.Type()}
		}
	}
	fail("unknown name %q in spec %q", name, n.text)
	return nil
}

func (ev *specEnv) importedPkg(name string) *types.Package {
	p := ev.scope()
	if p == nil {
		return nil
	}
	for _, imp := range p.Imports() {
		if imp.Name() == name {
			return imp
		}
	}
	if q := ev.x.prog.typesPkg(name); q != nil && q != p {
		return q
	}
	return nil
}

func (ev *specEnv) pkgObject(p *types.Package, name string) Val {
	obj := p.Scope().Lookup(name)
	if obj == nil {
		fail("no object %s.%s", p.Name(), name)
	}
	return ev.object(obj)
}

func (ev *specEnv) object(obj types.Object) Val {
	x := ev.x
	switch o := obj.(type) {
	case *types.Const:
		t := o.Type()
		switch x.sortOf(t) {
		case sBool:
			return Sc{boolLit(constant.BoolVal(o.Val())), t}
		case sStr:
			return Sc{x.strLit(constant.StringVal(o.Val())), t}
		case sInt:
			return Sc{bigIntLit(constant.ToInt(o.Val()).ExactString()), t}
		case sBV64:
			v, _ := constant.Int64Val(constant.ToInt(o.Val()))
			return Sc{bvLit(v), t}
		case sF64:
			f, _ := constant.Float64Val(constant.ToFloat(o.Val()))
			return Sc{f64Lit(f), t}
		}
	case *types.Var:
		p := Ptr{Prefix: "global:" + o.Pkg().Name() + "." + o.Name(), Elem: o.Type(), GT: types.NewPointer(o.Type())}
		return x.load(ev.st, p, o.Type())
	case *types.TypeName:
		return TypeV{o.Type()}
	}
	fail("unsupported object %v in spec", obj)
	return nil
}

// local resolves a local variable name of the function under verification at the current point.
func (ev *specEnv) local(name string) (Val, bool) {
	fr := ev.fr
	for _, p := range fr.fn.Params {
		if p.Name() == name {
			return fr.vals[p], true
		}
	}
	for _, fv := range fr.fn.FreeVars {
		if fv.Name() == name {
			v, ok := fr.vals[fv]
			return v, ok
		}
	}
	// phi at the current header
	if ev.at != nil {
		for _, ins := range ev.at.Instrs {
			phi, ok := ins.(*ssa.Phi)
			if !ok {
				break
			}
			if phi.Comment == name || strings.ReplaceAll(phi.Comment, ".", "_") == name {
				if v, ok := fr.vals[phi]; ok {
					return v, true
				}
			}
		}
	}
	// named allocs
	for _, b := range fr.fn.Blocks {
		for _, ins := range b.Instrs {
			if a, ok := ins.(*ssa.Alloc); ok && a.Comment == name {
				if v, isReg := fr.regs[a]; isReg {
					return v, true
				}
				if pv, ok := fr.vals[a]; ok {
					return ev.x.load(ev.st, ev.x.asPtr(pv), a.Type().(*types.Pointer).Elem()), true
				}
			}
		}
	}
	// debug refs: latest available value bound to the name whose block dominates the current point
	var best, bestConst ssa.Value
	bestIdx := -1
	for _, b := range fr.fn.Blocks {
		for _, ins := range b.Instrs {
			d, ok := ins.(*ssa.DebugRef)
			if !ok || d.IsAddr {
				continue
			}
			id, ok := d.Expr.(*ast.Ident)
			if !ok || id.Name != name {
				continue
			}
			if _, isConst := d.X.(*ssa.Const); isConst {
				if bestConst == nil {
					bestConst = d.X
				}
				continue
			}
			if _, have := fr.vals[d.X]; !have {
				continue
			}
			// the value must be defined at a point that dominates the current one
			vi, isInstr := d.X.(ssa.Instruction)
			if isInstr && ev.at != nil {
				vb := vi.Block()
				if vb == ev.at {
					if _, isPhi := d.X.(*ssa.Phi); !isPhi {
						continue
					}
				} else if !vb.Dominates(ev.at) {
					continue
				}
				if vb.Index >= bestIdx {
					best, bestIdx = d.X, vb.Index
				}
			} else if best == nil {
				best = d.X
			}
		}
	}
	if best == nil {
		best = bestConst
	}
	if best != nil {
		if os.Getenv("EVYVC_DEBUG_FRESH") != "" {
			fmt.Fprintf(os.Stderr, "local(%s) -> %s (%T) = %#v\n", name, best.Name(), best, ev.x.val(fr, ev.st, best))
		}
		return ev.x.val(fr, ev.st, best), true
	}
	return nil, false
}

func (ev *specEnv) field(base Val, name string) Val {
	x := ev.x
	switch b := base.(type) {
	case St:
		u := b.GT.Underlying().(*types.Struct)
		for i := 0; i < u.NumFields(); i++ {
			if u.Field(i).Name() == name {
				return b.F[i]
			}
		}
		fail("no field %s in %s", name, b.GT)
	case Sc, Ptr:
		p := x.asPtr(base)
		u, ok := p.Elem.Underlying().(*types.Struct)
		if !ok {
			fail("field %s of non-struct pointer %s", name, p.Elem)
		}
		if p.Obj && !ev.st.noSide && ev.st.inQuant == 0 {
			x.assumeTypeInv(ev.st, p)
		}
		for i := 0; i < u.NumFields(); i++ {
			if u.Field(i).Name() == name {
				fp := Ptr{Prefix: p.Prefix + "." + name, Idx: p.Idx, Elem: u.Field(i).Type()}
				v := x.load(ev.st, fp, u.Field(i).Type())
				x.assumeLoaded(ev.st, v) // heap closure: stored references are allocated
				return v
			}
		}
		// promoted through embedded fields
		for i := 0; i < u.NumFields(); i++ {
			if u.Field(i).Embedded() {
				if _, ok := u.Field(i).Type().Underlying().(*types.Struct); ok {
					ep := Ptr{Prefix: p.Prefix + "." + u.Field(i).Name(), Idx: p.Idx, Elem: u.Field(i).Type(), GT: types.NewPointer(u.Field(i).Type())}
					if hasField(u.Field(i).Type(), name) {
						return ev.field(ep, name)
					}
				}
			}
		}
		fail("no field %s in %s", name, p.Elem)
	}
	fail("field %s of %T", name, base)
	return nil
}

func hasField(t types.Type, name string) bool {
	u, ok := t.Underlying().(*types.Struct)
	if !ok {
		return false
	}
	for i := 0; i < u.NumFields(); i++ {
		if u.Field(i).Name() == name {
			return true
		}
	}
	return false
}

// evalLoc evaluates an l-value expression to a location.
func (ev *specEnv) evalLoc(n *specNode) Ptr {
	x := ev.x
	switch e := n.e.(type) {
	case *ast.ParenExpr:
		return ev.evalLoc(&specNode{e: e.X, ph: n.ph, text: n.text})
	case *ast.StarExpr:
		return x.asPtr(ev.expr(e.X, n))
	case *ast.SelectorExpr:
		if id, ok := e.X.(*ast.Ident); ok {
			if _, isVar := ev.lookupVar(id.Name); !isVar {
				if p := ev.importedPkg(id.Name); p != nil {
					obj := p.Scope().Lookup(e.Sel.Name)
					if v, ok := obj.(*types.Var); ok {
						return Ptr{Prefix: "global:" + p.Name() + "." + v.Name(), Elem: v.Type(), GT: types.NewPointer(v.Type())}
					}
				}
			}
		}
		base := ev.expr(e.X, n)
		var p Ptr
		if _, isSt := base.(St); isSt {
			// a field of a struct-valued field: the location is inside the enclosing object
			p = ev.evalLoc(&specNode{e: e.X, ph: n.ph, text: n.text})
		} else {
			p = x.asPtr(base)
		}
		u, ok := p.Elem.Underlying().(*types.Struct)
		if !ok {
			fail("location %s: not a struct", n.text)
		}
		for i := 0; i < u.NumFields(); i++ {
			if u.Field(i).Name() == e.Sel.Name {
				return Ptr{Prefix: p.Prefix + "." + e.Sel.Name, Idx: p.Idx, Elem: u.Field(i).Type(), GT: types.NewPointer(u.Field(i).Type())}
			}
		}
	case *ast.IndexExpr:
		base := ev.expr(e.X, n)
		idx := ev.coerceInt(ev.expr(e.Index, n).(Sc)).T
		if sl, ok := base.(Sl); ok {
			et := sl.GT.Underlying().(*types.Slice).Elem()
			return Ptr{Prefix: x.elemPrefix(sl.Base, et), Idx: []Term{sl.Base, app(sInt, "+", sl.Off, idx)}, Elem: et, GT: types.NewPointer(et)}
		}
	case *ast.Ident:
		if ev.fr != nil {
			// a named local variable that lives in memory (address taken)
			for _, b := range ev.fr.fn.Blocks {
				for _, ins := range b.Instrs {
					if a, ok := ins.(*ssa.Alloc); ok && a.Comment == e.Name {
						if pv, ok := ev.fr.vals[a]; ok {
							if _, isReg := ev.fr.regs[a]; !isReg {
								return x.asPtr(pv)
							}
						}
					}
				}
			}
		}
		if p := ev.scope(); p != nil {
			if v, ok := p.Scope().Lookup(e.Name).(*types.Var); ok {
				if _, isVar := ev.lookupVar(e.Name); !isVar {
					return Ptr{Prefix: "global:" + p.Name() + "." + v.Name(), Elem: v.Type(), GT: types.NewPointer(v.Type())}
				}
			}
		}
	}
	fail("unsupported location expression %q", n.text)
	return Ptr{}
}

func (ev *specEnv) index(base, idx Val) Val {
	x := ev.x
	switch b := base.(type) {
	case Sl:
		et := b.GT.Underlying().(*types.Slice).Elem()
		i := ev.coerceInt(idx.(Sc)).T
		p := Ptr{Prefix: x.elemPrefix(b.Base, et), Idx: []Term{b.Base, addIndex(b.Off, i)}, Elem: et}
		return x.load(ev.st, p, et)
	case ArrV:
		i := ev.coerceInt(idx.(Sc)).T
		return Sc{mkSelect(b.T, i), b.Elem}
	case Sc:
		if mt, ok := b.GT.Underlying().(*types.Map); ok {
			return x.mapValRead(ev.st, b.T, mt, idx.(Sc).T)
		}
		if b.T.Sort == sStr {
			return Sc{app(sInt, "str.at_", b.T, ev.coerceInt(idx.(Sc)).T), types.Typ[types.Uint8]}
		}
	}
	fail("unsupported index base %T", base)
	return nil
}

// coerceInt converts an untyped integer literal to the current integer mode.
func (ev *specEnv) coerceInt(v Sc) Sc {
	if ev.x.bv && v.T.Sort == sInt {
		if b, ok := v.GT.Underlying().(*types.Basic); ok && isIntKind(b) {
			return Sc{ev.intToBV(v.T), v.GT}
		}
	}
	return v
}

func (ev *specEnv) intToBV(t Term) Term {
	s := t.S
	neg := false
	if strings.HasPrefix(s, "(- ") {
		neg = true
		s = s[3 : len(s)-1]
	}
	n, err := strconv.ParseInt(s, 10, 64)
	if err != nil {
		fail("bv64 mode: integer term %s is not a literal", t.S)
	}
	if neg {
		n = -n
	}
	return bvLit(n)
}

func (ev *specEnv) binary(e *ast.BinaryExpr, n *specNode) Val {
	x := ev.x
	if e.Op == token.LAND || e.Op == token.LOR {
		a := ev.expr(e.X, n).(Sc).T
		b := ev.expr(e.Y, n).(Sc).T
		if e.Op == token.LAND {
			return Sc{mkAnd(a, b), types.Typ[types.Bool]}
		}
		return Sc{mkOr(a, b), types.Typ[types.Bool]}
	}
	a := ev.expr(e.X, n)
	b := ev.expr(e.Y, n)
	// constant folding of integer literals
	if sa, ok := a.(Sc); ok {
		if sb, ok := b.(Sc); ok && sa.T.Sort == sInt && sb.T.Sort == sInt {
			if ca, ok := litConst(sa.T); ok {
				if cb, ok := litConst(sb.T); ok {
					switch e.Op {
					case token.ADD, token.SUB, token.MUL:
						return Sc{bigIntLit(constant.BinaryOp(ca, e.Op, cb).ExactString()), types.Typ[types.UntypedInt]}
					case token.SHL:
						if n, ok := constant.Uint64Val(cb); ok && n < 256 {
							return Sc{bigIntLit(constant.Shift(ca, token.SHL, uint(n)).ExactString()), types.Typ[types.UntypedInt]}
						}
					}
				}
			}
		}
	}
	// slice equality: componentwise
	if sa, ok := a.(Sl); ok {
		if sb, ok := b.(Sl); ok {
			eq := mkAnd(mkEq(sa.Base, sb.Base), mkEq(sa.Off, sb.Off), mkEq(sa.Len, sb.Len), mkEq(sa.Cap, sb.Cap))
			if e.Op == token.NEQ {
				eq = mkNot(eq)
			}
			return Sc{eq, types.Typ[types.Bool]}
		}
	}
	if aa, ok := a.(ArrV); ok {
		bb := b.(ArrV)
		eq := mkEq(aa.T, bb.T)
		if e.Op == token.NEQ {
			eq = mkNot(eq)
		}
		return Sc{eq, types.Typ[types.Bool]}
	}
	// coercions of untyped literals
	if sa, ok := a.(Sc); ok {
		if sb, ok := b.(Sc); ok {
			sa, sb = ev.unify(sa, sb)
			a, b = sa, sb
		}
	}
	var rt types.Type = types.Typ[types.Bool]
	switch e.Op {
	case token.ADD, token.SUB, token.MUL, token.QUO, token.REM, token.SHL, token.SHR, token.AND, token.OR:
		rt = types.Typ[types.UntypedInt]
		if sa, ok := a.(Sc); ok {
			switch sa.T.Sort {
			case sF64:
				rt = types.Typ[types.Float64]
			case sStr:
				rt = types.Typ[types.String]
			}
		}
	}
	if e.Op == token.QUO || e.Op == token.REM {
		if sa, ok := a.(Sc); ok && sa.T.Sort == sInt {
			fn := "gdiv"
			if e.Op == token.REM {
				fn = "gmod"
			}
			return Sc{app(sInt, fn, sa.T, b.(Sc).T), rt}
		}
	}
	return x.binop(&Frame{fn: x.fn, depth: 1}, ev.st, e.Op, a, b, nil, rt, nil)
}

func (ev *specEnv) unify(a, b Sc) (Sc, Sc) {
	if a.T.Sort == b.T.Sort {
		return a, b
	}
	isLit := func(s Sc) bool {
		bt, ok := s.GT.(*types.Basic)
		return ok && (bt.Kind() == types.UntypedInt || bt.Kind() == types.UntypedRune || bt.Kind() == types.UntypedNil)
	}
	conv := func(lit Sc, other Sc) Sc {
		switch other.T.Sort {
		case sF64:
			s := lit.T.S
			neg := false
			if strings.HasPrefix(s, "(- ") {
				neg = true
				s = s[3 : len(s)-1]
			}
			f, err := strconv.ParseFloat(s, 64)
			if err == nil {
				if neg {
					f = -f
				}
				return Sc{f64Lit(f), other.GT}
			}
		case sBV64:
			return Sc{ev.intToBV(lit.T), other.GT}
		case sIface:
			if lit.T.S == "0" {
				return Sc{tNilI, other.GT}
			}
		}
		return lit
	}
	if isLit(a) {
		a = conv(a, b)
	} else if isLit(b) {
		b = conv(b, a)
	}
	if a.T.Sort != b.T.Sort {
		// Int literal vs BV: typed constants from the package
		if a.T.Sort == sInt && b.T.Sort == sBV64 {
			a = Sc{ev.intToBV(a.T), a.GT}
		} else if b.T.Sort == sInt && a.T.Sort == sBV64 {
			b = Sc{ev.intToBV(b.T), b.GT}
		}
	}
	return a, b
}

func (ev *specEnv) resolveType(e ast.Expr) types.Type {
	switch e := e.(type) {
	case *ast.ParenExpr:
		return ev.resolveType(e.X)
	case *ast.StarExpr:
		return types.NewPointer(ev.resolveType(e.X))
	case *ast.ArrayType:
		if e.Len == nil {
			return types.NewSlice(ev.resolveType(e.Elt))
		}
	case *ast.MapType:
		return types.NewMap(ev.resolveType(e.Key), ev.resolveType(e.Value))
	case *ast.Ident:
		if p := ev.scope(); p != nil {
			if tn, ok := p.Scope().Lookup(e.Name).(*types.TypeName); ok {
				return tn.Type()
			}
		}
		if tn, ok := types.Universe.Lookup(e.Name).(*types.TypeName); ok {
			return tn.Type()
		}
	case *ast.SelectorExpr:
		if id, ok := e.X.(*ast.Ident); ok {
			if p := ev.importedPkg(id.Name); p != nil {
				if tn, ok := p.Scope().Lookup(e.Sel.Name).(*types.TypeName); ok {
					return tn.Type()
				}
			}
		}
	case *ast.InterfaceType:
		return types.NewInterfaceType(nil, nil)
	}
	fail("cannot resolve type %s", exprString(e))
	return nil
}

func (ev *specEnv) withState(st *State) *specEnv {
	n := *ev
	n.st = st
	return &n
}

func (ev *specEnv) callExpr(e *ast.CallExpr, n *specNode) Val {
	x := ev.x
	fname := ""
	switch f := e.Fun.(type) {
	case *ast.Ident:
		fname = f.Name
	case *ast.SelectorExpr:
		fname = exprString(f)
	default:
		// conversion like (*T)(x)
		fail("unsupported call target in spec %q", n.text)
	}
	arg := func(i int) Val { return ev.expr(e.Args[i], n) }
	argT := func(i int) Term { return ev.coerceInt(arg(i).(Sc)).T }
	boolV := func(t Term) Val { return Sc{t, types.Typ[types.Bool]} }
	switch fname {
	case "old":
		if ev.old == nil {
			return arg(0)
		}
		return ev.withState(ev.old).expr(e.Args[0], n)
	case "ite":
		c := arg(0).(Sc).T
		a, b := arg(1), arg(2)
		if sa, ok := a.(Sc); ok {
			if sb, ok := b.(Sc); ok {
				sa, sb = ev.unify(sa, sb)
				return Sc{mkIte(c, sa.T, sb.T), sa.GT}
			}
		}
		return x.iteVal(ev.st, c, a, b)
	case "same":
		a, b := arg(0), arg(1)
		if sa, ok := a.(Sc); ok {
			sb := b.(Sc)
			sa, sb = ev.unify(sa, sb)
			return boolV(mkEq(sa.T, sb.T))
		}
		fail("same() on composite values")
	case "implies":
		return boolV(mkImplies(arg(0).(Sc).T, arg(1).(Sc).T))
	case "forall", "exists":
		id := e.Args[0].(*ast.Ident).Name
		t := ev.resolveType(e.Args[1])
		srt := x.sortOf(t)
		x.nsym++
		bn := quoteSym(fmt.Sprintf("%s!q%d", id, x.nsym))
		nb := map[string]Val{}
		for k, v := range ev.bound {
			nb[k] = v
		}
		nb[id] = Sc{Term{bn, srt}, t}
		sub := *ev
		sub.bound = nb
		sub.st.inQuant++
		if sub.old != nil {
			sub.old.inQuant++
		}
		body := sub.expr(e.Args[2], n).(Sc).T
		sub.st.inQuant--
		if sub.old != nil {
			sub.old.inQuant--
		}
		bs := body.S
		if srt == sInt {
			var outer []string
			for _, v := range ev.bound {
				if sc, ok := v.(Sc); ok {
					outer = append(outer, sc.T.S)
				}
			}
			bs = absorbOffset(bs, bn, outer)
		}
		return boolV(Term{fmt.Sprintf("(%s ((%s %s)) %s)", fname, bn, srt, bs), sBool})
	case "len":
		switch a := arg(0).(type) {
		case Sl:
			return Sc{a.Len, types.Typ[types.Int]}
		case Sc:
			if a.T.Sort == sStr {
				return Sc{app(sInt, "str.len_", a.T), types.Typ[types.Int]}
			}
			if mt, ok := a.GT.Underlying().(*types.Map); ok {
				_, _, sz := x.mapClassesOf(a.T, mt)
				s := x.classTermSort(ev.st, sz, arr(sInt, sInt))
				return Sc{x.outerSelect(s, a.T), types.Typ[types.Int]}
			}
		}
		fail("len of unsupported value in %q", n.text)
	case "cap":
		return Sc{arg(0).(Sl).Cap, types.Typ[types.Int]}
	case "base":
		return Sc{arg(0).(Sl).Base, types.Typ[types.Int]}
	case "off":
		return Sc{arg(0).(Sl).Off, types.Typ[types.Int]}
	case "is", "dyn":
		v := arg(0).(Sc)
		t := ev.resolveType(e.Args[1])
		return boolV(x.hasTag(v.T, t))
	case "fresh":
		if ev.old == nil {
			fail("fresh() outside a postcondition")
		}
		r := ev.refOf(arg(0))
		if os.Getenv("EVYVC_DEBUG_FRESH") != "" {
			fmt.Fprintf(os.Stderr, "fresh(%s): arg=%#v\n", exprString(e.Args[0]), arg(0))
		}
		return boolV(mkAnd(app(sBool, ">=", r, ev.old.alloc), app(sBool, "<", r, ev.st.alloc)))
	case "allocated":
		r := ev.refOf(arg(0))
		return boolV(mkAnd(app(sBool, "<", intLit(0), r), app(sBool, "<", r, ev.st.alloc)))
	case "ref":
		return Sc{ev.refOf(arg(0)), types.Typ[types.Int]}
	case "wraps":
		a, b := arg(0).(Sc).T, arg(1).(Sc).T
		return boolV(mkAnd(mkNot(mkEq(a, tNilI)), app(sBool, "wraps_", a, b)))
	case "wrapsOnly":
		a, b := arg(0).(Sc), arg(1).(Sc)
		bt := b.T
		if bt.Sort == sInt {
			bt = tNilI
		}
		return boolV(x.wrapsOnly(a.T, bt))
	case "has":
		m := arg(0).(Sc)
		mt := m.GT.Underlying().(*types.Map)
		return boolV(mkSelect(x.mapDom(ev.st, m.T, mt), arg(1).(Sc).T))
	case "float":
		t := argT(0)
		if t.Sort == sBV64 {
			return Sc{app(sF64, "(_ to_fp 11 53) RNE", t), types.Typ[types.Float64]}
		}
		if t.Sort == sF64 {
			return Sc{t, types.Typ[types.Float64]}
		}
		return Sc{app(sF64, "i2f_", t), types.Typ[types.Float64]}
	case "int":
		t := arg(0).(Sc).T
		if t.Sort == sF64 {
			if x.bv {
				return Sc{app(sBV64, "(_ fp.to_sbv 64) RTZ", t), types.Typ[types.Int]}
			}
			return Sc{app(sInt, "f2i_", t), types.Typ[types.Int]}
		}
		return Sc{ev.coerceInt(Sc{t, types.Typ[types.Int]}).T, types.Typ[types.Int]}
	case "isNaN":
		return boolV(app(sBool, "fp.isNaN", arg(0).(Sc).T))
	case "isInf":
		return boolV(app(sBool, "fp.isInfinite", arg(0).(Sc).T))
	case "isIntegral":
		t := arg(0).(Sc).T
		return boolV(mkAnd(mkNot(app(sBool, "fp.isNaN", t)), mkNot(app(sBool, "fp.isInfinite", t)), app(sBool, "fp.eq", app(sF64, "fp.roundToIntegral RTZ", t), t)))
	case "trunc":
		return Sc{app(sF64, "fp.roundToIntegral RTZ", arg(0).(Sc).T), types.Typ[types.Float64]}
	case "rlen":
		return Sc{app(sInt, "str.rlen_", arg(0).(Sc).T), types.Typ[types.Int]}
	case "runes":
		return ArrV{app(arr(sInt, sInt), "str.runes_", arg(0).(Sc).T), types.Typ[types.Int32]}
	case "bytes":
		return ArrV{app(arr(sInt, sInt), "str.bytes_", arg(0).(Sc).T), types.Typ[types.Uint8]}
	case "fromRunes":
		a := arg(0).(ArrV)
		return Sc{app(sStr, "str.fromrunes_", a.T, argT(1), argT(2)), types.Typ[types.String]}
	case "fromRune":
		return Sc{app(sStr, "str.fromrune_", argT(0)), types.Typ[types.String]}
	case "contents":
		// contents(s): the mathematical array backing slice s (indexed from base offset 0)
		s := arg(0).(Sl)
		et := s.GT.Underlying().(*types.Slice).Elem()
		srt := x.heapSort(et)
		A := x.classTermSort(ev.st, x.elemPrefix(s.Base, et), arr(sInt, arr(sInt, srt)))
		return ArrV{x.outerSelect(A, s.Base), et}
	case "idxof", "atpos":
		// idxof(s, k): choice function for a position of k in slice s. Its defining axiom fires only where
		// a position hint atpos(s, i) was given, which keeps quantifier instantiation under control.
		sl := arg(0).(Sl)
		et := sl.GT.Underlying().(*types.Slice).Elem()
		srt := x.heapSort(et)
		A := x.classTermSort(ev.st, x.elemPrefix(sl.Base, et), arr(sInt, arr(sInt, srt)))
		fn := quoteSym("idxof:" + srt)
		mk := quoteSym("posmark:" + srt)
		x.decls.add(fn, fmt.Sprintf("(declare-fun %s (%s Int Int %s) Int)\n(declare-fun %s (%s Int) Bool)\n(assert (forall ((a %s) (j Int)) (! (%s a j) :pattern ((%s a j)))))\n(assert (forall ((a %s) (o Int) (n Int) (k %s) (j Int)) (! (=> (and (<= o j) (< j (+ o n)) (= (select a j) k)) (and (<= 0 (%s a o n k)) (< (%s a o n k) n) (= (select a (+ o (%s a o n k))) k))) :pattern ((%s a o n k) (%s a j)))))",
			fn, arr(sInt, srt), srt, mk, arr(sInt, srt), arr(sInt, srt), mk, mk, arr(sInt, srt), srt, fn, fn, fn, fn, mk))
		if fname == "atpos" {
			return boolV(app(sBool, mk, x.outerSelect(A, sl.Base), app(sInt, "+", sl.Off, argT(1))))
		}
		return Sc{app(sInt, fn, x.outerSelect(A, sl.Base), sl.Off, sl.Len, arg(1).(Sc).T), types.Typ[types.Int]}
	case "concat":
		return Sc{app(sStr, "str.cat_", arg(0).(Sc).T, arg(1).(Sc).T), types.Typ[types.String]}
	case "strlt":
		return boolV(app(sBool, "str.lt_", arg(0).(Sc).T, arg(1).(Sc).T))
	case "seen":
		if ev.fr == nil || ev.iter == nil {
			fail("seen() outside a map-range loop invariant")
		}
		return boolV(mkSelect(ev.fr.iters[ev.iter], arg(0).(Sc).T))
	case "applies":
		// applies(f, a): the result of calling the (pure) function parameter f on a
		name := exprString(e.Args[0])
		a := ev.coerceInt(arg(1).(Sc))
		fn := quoteSym("param:" + name)
		if ev.x.fn != nil {
			for _, prm := range ev.x.fn.Params {
				if prm.Name() == name {
					if sig, ok := prm.Type().Underlying().(*types.Signature); ok && sig.Results().Len() == 1 {
						rs := x.sortOf(sig.Results().At(0).Type())
						x.decls.add(fn, fmt.Sprintf("(declare-fun %s (%s) %s)", fn, a.T.Sort, rs))
						return Sc{app(rs, fn, a.T), sig.Results().At(0).Type()}
					}
				}
			}
		}
		return boolV(x.fresh("applies", sBool))
	case "pending":
		if ev.st.pending.S == "" {
			return Sc{tNilI, types.Universe.Lookup("error").Type()}
		}
		return Sc{ev.st.pending, types.Universe.Lookup("error").Type()}
	case "ncalls":
		name := stringLit(e.Args[0])
		t := x.ncallsTerm(ev.st, name)
		if v, ok := litVal(t); ok {
			return untypedInt(v)
		}
		return Sc{t, types.Typ[types.Int]}
	case "callarg":
		return x.logLookup(ev.st, stringLit(e.Args[0]), ev.coerceInt(arg(1).(Sc)).T, intLitArg(e.Args[2]), false)
	case "callres":
		return x.logLookup(ev.st, stringLit(e.Args[0]), ev.coerceInt(arg(1).(Sc)).T, intLitArg(e.Args[2]), true)
	case "float64":
		return ev.callExprNamed("float", e, n)
	}
	// conversions to named types / pure spec functions / uninterpreted library functions
	if pd, ok := x.prog.specs.Pures[fname]; ok {
		return ev.callPure(pd, e, n)
	}
	if c, ok := x.prog.specs.Funcs[fname]; ok && c.Pure {
		var args []Val
		for i := range e.Args {
			args = append(args, arg(i))
		}
		sig := x.prog.signatureOf(fname)
		if sig == nil {
			fail("pure library function %s: signature not found", fname)
		}
		return x.pureResult(ev.st, fname, sig, args)
	}
	// type conversion T(x)
	if len(e.Args) == 1 {
		if t := ev.tryType(e.Fun); t != nil {
			v := arg(0)
			if sl, ok := v.(Sl); ok {
				if tb, ok := t.Underlying().(*types.Basic); ok && tb.Info()&types.IsString != 0 {
					// string(bytes) / string(runes): the same function of the backing array the code's conversion uses
					st0 := sl.GT.Underlying().(*types.Slice)
					eb, _ := st0.Elem().Underlying().(*types.Basic)
					class := "elem:" + typeStr(st0.Elem())
					a := x.classTerm(ev.st, class, 2, sInt)
					fn := "str.frombytes_"
					if eb != nil && eb.Kind() == types.Int32 {
						fn = "str.fromrunes_"
					}
					return Sc{app(sStr, fn, x.outerSelect(a, sl.Base), sl.Off, sl.Len), t}
				}
			}
			if sc, ok := v.(Sc); ok {
				if _, isI := t.Underlying().(*types.Interface); isI && sc.T.Sort != sIface {
					return Sc{x.box(ev.st, sc, sc.GT), t}
				}
				return Sc{sc.T, t}
			}
			return retype(v, t)
		}
	}
	fail("unknown spec function %q in %q", fname, n.text)
	return nil
}

func (ev *specEnv) callExprNamed(name string, e *ast.CallExpr, n *specNode) Val {
	ne := *e
	ne.Fun = &ast.Ident{Name: name}
	return ev.callExpr(&ne, n)
}

func (ev *specEnv) tryType(e ast.Expr) (t types.Type) {
	defer func() {
		if r := recover(); r != nil {
			t = nil
		}
	}()
	return ev.resolveType(e)
}

func stringLit(e ast.Expr) string {
	if b, ok := e.(*ast.BasicLit); ok && b.Kind == token.STRING {
		s, _ := strconv.Unquote(b.Value)
		return s
	}
	fail("expected string literal")
	return ""
}

func intLitArg(e ast.Expr) int {
	if b, ok := e.(*ast.BasicLit); ok && b.Kind == token.INT {
		n, _ := strconv.Atoi(b.Value)
		return n
	}
	fail("expected integer literal")
	return 0
}

func (ev *specEnv) refOf(v Val) Term {
	switch v := v.(type) {
	case Sc:
		if v.T.Sort == sIface {
			return irefOf(v.T)
		}
		return v.T
	case Ptr:
		return ev.x.scalarOf(v)
	case Sl:
		return v.Base
	}
	fail("refOf %T", v)
	return Term{}
}

// callPure expands (non-recursive) or declares (recursive / uninterpreted) a spec function.
func (ev *specEnv) callPure(pd *PureDef, e *ast.CallExpr, n *specNode) Val {
	x := ev.x
	if len(e.Args) != len(pd.Params) {
		fail("pure %s: want %d args", pd.Name, len(pd.Params))
	}
	var args []Val
	for i := range e.Args {
		args = append(args, ev.expr(e.Args[i], n))
	}
	if pd.Body != "" && !strings.Contains(pd.Body, pd.Name+"(") {
		sub := &specEnv{x: x, st: ev.st, old: ev.old, vars: map[string]Val{}, c: ev.c, pkg: x.prog.typesPkg(pd.Pkg), bound: ev.bound, fr: nil}
		for i, p := range pd.Params {
			a := args[i]
			if sc, ok := a.(Sc); ok {
				a = ev.coerceInt(sc)
			}
			sub.vars[p] = a
		}
		return sub.eval(parseSpecExpr(pd.Body))
	}
	if pd.Body != "" {
		return ev.callRecPure(pd, args)
	}
	// uninterpreted
	fn := quoteSym("spec:" + pd.Name)
	var sorts []string
	var ts []Term
	for _, a := range args {
		sc, ok := a.(Sc)
		if !ok {
			fail("pure %s: composite argument", pd.Name)
		}
		sc = ev.coerceInt(sc)
		sorts = append(sorts, sc.T.Sort)
		ts = append(ts, sc.T)
	}
	sub := &specEnv{x: x, pkg: x.prog.typesPkg(pd.Pkg), c: ev.c}
	rt := sub.resolveTypeStr(pd.RType)
	rs := x.sortOf(rt)
	x.decls.add(fn, fmt.Sprintf("(declare-fun %s (%s) %s)", fn, strings.Join(sorts, " "), rs))
	return Sc{app(rs, fn, ts...), rt}
}

// callRecPure handles a recursive spec function: it is compiled once into a define-fun-rec whose
// parameters include every heap class its body reads, so that it can be applied to any heap version.
func (ev *specEnv) callRecPure(pd *PureDef, args []Val) Val {
	x := ev.x
	fn := quoteSym("rec:" + pd.Name)
	var ts []Term
	for _, a := range args {
		sc, ok := a.(Sc)
		if !ok {
			if p, isP := a.(Ptr); isP && p.Obj {
				sc = Sc{p.Idx[0], p.GT}
			} else {
				fail("recursive pure %s: composite argument", pd.Name)
			}
		}
		ts = append(ts, ev.coerceInt(sc).T)
	}
	rf := x.recFuncs[pd.Name]
	if rf == nil {
		rf = &recFunc{name: fn, sorts: map[string]string{}}
		x.recFuncs[pd.Name] = rf
		sub := &specEnv{x: x, pkg: x.prog.typesPkg(pd.Pkg), c: ev.c}
		rf.rtype = sub.resolveTypeStr(pd.RType)
		rf.rsort = x.sortOf(rf.rtype)
		ps := &State{heap: map[string]Term{}, invSeen: map[string]bool{}, inQuant: 1, noSide: true, alloc: Term{"0", sInt}}
		ps.param = &paramHeap{sorts: map[string]string{}}
		vars := map[string]Val{}
		var pdecl []string
		for i, pn := range pd.Params {
			pt := sub.resolveTypeStr(pd.PTypes[i])
			srt := x.sortOf(pt)
			if srt == "" {
				fail("recursive pure %s: composite parameter %s", pd.Name, pn)
			}
			sym := quoteSym("p:" + pn)
			vars[pn] = Sc{Term{sym, srt}, pt}
			pdecl = append(pdecl, fmt.Sprintf("(%s %s)", sym, srt))
			rf.psorts = append(rf.psorts, srt)
		}
		rf.compiling = true
		cev := &specEnv{x: x, st: ps, vars: vars, pkg: sub.pkg, c: ev.c}
		body := cev.eval(parseSpecExpr(pd.Body))
		rf.compiling = false
		bs, ok := body.(Sc)
		if !ok {
			fail("recursive pure %s: composite result", pd.Name)
		}
		rf.reads = ps.param.order
		rf.sorts = ps.param.sorts
		var hdecl, hnames []string
		for _, c := range rf.reads {
			hdecl = append(hdecl, fmt.Sprintf("(%s %s)", quoteSym("hp:"+c), rf.sorts[c]))
			hnames = append(hnames, quoteSym("hp:"+c))
		}
		text := strings.ReplaceAll(bs.T.S, "%%HP:"+pd.Name+"%%", strings.Join(hnames, " "))
		x.decls.add(fn, fmt.Sprintf("(define-fun-rec %s (%s) %s %s)", fn, strings.Join(append(hdecl, pdecl...), " "), rf.rsort, text))
	}
	if rf.compiling {
		// recursive occurrence inside its own body: heap parameters are passed through unchanged
		return Sc{Term{fmt.Sprintf("(%s %%%%HP:%s%%%% %s)", fn, pd.Name, joinTerms(ts)), rf.rsort}, rf.rtype}
	}
	var hs []Term
	for _, c := range rf.reads {
		hs = append(hs, x.classTermSort(ev.st, c, rf.sorts[c]))
	}
	return Sc{app(rf.rsort, fn, append(hs, ts...)...), rf.rtype}
}

func joinTerms(ts []Term) string {
	var ss []string
	for _, t := range ts {
		ss = append(ss, t.S)
	}
	return strings.Join(ss, " ")
}

func (ev *specEnv) resolveTypeStr(s string) types.Type {
	e, err := parser.ParseExpr(s)
	if err != nil {
		fail("bad type %q", s)
	}
	return ev.resolveType(e)
}

func litConst(t Term) (constant.Value, bool) {
	s := t.S
	neg := false
	if strings.HasPrefix(s, "(- ") && strings.HasSuffix(s, ")") {
		neg = true
		s = s[3 : len(s)-1]
	}
	for _, c := range s {
		if c < '0' || c > '9' {
			return nil, false
		}
	}
	if s == "" {
		return nil, false
	}
	v := constant.MakeFromLiteral(s, token.INT, 0)
	if neg {
		v = constant.UnaryOp(token.SUB, v, 0)
	}
	return v, true
}

// absorbOffset rewrites a quantifier body so that the bound variable ranges over absolute cell
// positions: the first index term of the form (+ X v) becomes the variable itself (v := v - X).
// The quantifier keeps its meaning (the substitution is a bijection on Int) and its triggers
// become arithmetic-free selects, which E-matching handles reliably.
func absorbOffset(body, v string, outer []string) string {
	needle := " " + v + ")"
	// if the variable already is a direct array index somewhere, the quantifier has a clean trigger
	for from := 0; ; {
		i := strings.Index(body[from:], needle)
		if i < 0 {
			break
		}
		i += from
		from = i + 1
		if isSelectIndex(body, i+1) {
			return body
		}
	}
	for from := 0; ; {
		i := strings.Index(body[from:], needle)
		if i < 0 {
			return body
		}
		i += from
		from = i + 1
		// walk back over one balanced term T so that body[k:i] == "(+ T"
		j := i
		d := 0
		inq := false
		k := -1
		for p := j - 1; p >= 0; p-- {
			c := body[p]
			if c == '|' {
				inq = !inq
				continue
			}
			if inq {
				continue
			}
			if c == ')' {
				d++
			} else if c == '(' {
				if d == 0 {
					k = p
					break
				}
				d--
			}
		}
		if k < 0 || !strings.HasPrefix(body[k:], "(+ ") {
			continue
		}
		X := body[k+3 : j]
		// X must be a single balanced term not mentioning v
		if !balanced(X) || strings.Contains(X, v) || X == "" {
			continue
		}
		// X may mention variables bound outside this quantifier, never ones bound inside its body
		chk := X
		for _, o := range outer {
			chk = strings.ReplaceAll(chk, o, "")
		}
		if strings.Contains(chk, "!q") {
			continue
		}
		whole := "(+ " + X + " " + v + ")"
		// only absorb offsets of array accesses: the term must be the index argument of a select
		if !strings.Contains(body, " "+whole+")") || !isSelectIndex(body, k) {
			continue
		}
		out := strings.ReplaceAll(body, whole, "\x00")
		out = strings.ReplaceAll(out, v, "(- "+v+" "+X+")")
		out = strings.ReplaceAll(out, "\x00", v)
		return out
	}
}

// isSelectIndex: the term starting at position k is the last argument of a (select A idx) application.
func isSelectIndex(body string, k int) bool {
	// walk back over one balanced term (the array) and expect "(select " before it
	p := k - 1
	if p < 0 || body[p] != ' ' {
		return false
	}
	p--
	d := 0
	inq := false
	for ; p >= 0; p-- {
		c := body[p]
		if c == '|' {
			inq = !inq
			continue
		}
		if inq {
			continue
		}
		if c == ')' {
			d++
		} else if c == '(' {
			d--
			if d == 0 {
				break
			}
			if d < 0 {
				return false
			}
		} else if c == ' ' && d == 0 {
			p++
			break
		}
	}
	if p < 0 {
		return false
	}
	// p is the start of the array term
	return p >= 8 && body[p-8:p] == "(select "
}

// addIndex builds off+idx so that a variable summand ends up last: (+ (+ off a) v).
func addIndex(off, idx Term) Term {
	if strings.HasPrefix(idx.S, "(+ ") && balanced(idx.S) {
		inner := idx.S[3 : len(idx.S)-1]
		// split the two arguments
		n := sortEnd(inner)
		if n < len(inner) {
			a := Term{inner[:n], sInt}
			b := Term{strings.TrimSpace(inner[n:]), sInt}
			if balanced(b.S) && !strings.Contains(b.S, " ") || strings.HasPrefix(b.S, "(") && balanced(b.S) {
				return app(sInt, "+", app(sInt, "+", off, a), b)
			}
		}
	}
	return app(sInt, "+", off, idx)
}
