package main

import (
	"fmt"
	"go/constant"
	"go/types"
	"sort"
	"strings"

	"golang.org/x/tools/go/ssa"
)

func (x *Exec) call(fr *Frame, st *State, ins *ssa.Call, k kont) {
	x.callCommon(fr, st, &ins.Call, nil, ins, k)
}

// calleeKey gives the contract key of a static callee.
func calleeKey(f *ssa.Function) string {
	if f.Pkg == nil && f.Signature.Recv() == nil && f.Parent() == nil {
		if f.Object() != nil && f.Object().Pkg() != nil {
			return f.Object().Pkg().Name() + "." + f.Name()
		}
		return f.Name()
	}
	pkg := ""
	if f.Package() != nil {
		pkg = f.Package().Pkg.Name()
	} else if f.Object() != nil && f.Object().Pkg() != nil {
		pkg = f.Object().Pkg().Name()
	}
	if recv := f.Signature.Recv(); recv != nil {
		rt := recv.Type()
		if p, ok := rt.(*types.Pointer); ok {
			if n, ok := p.Elem().(*types.Named); ok {
				return pkg + ".(*" + n.Obj().Name() + ")." + f.Name()
			}
		}
		if n, ok := rt.(*types.Named); ok {
			return pkg + ".(" + n.Obj().Name() + ")." + f.Name()
		}
	}
	return pkg + "." + f.Name()
}

func (x *Exec) callCommon(fr *Frame, st *State, cc *ssa.CallCommon, pre []Val, ins ssa.Instruction, k kont) {
	evalArgs := func() []Val {
		if pre != nil {
			return pre
		}
		var args []Val
		for _, a := range cc.Args {
			args = append(args, x.val(fr, st, a))
		}
		return args
	}
	if cc.IsInvoke() {
		var recv Val
		var args []Val
		if pre != nil {
			recv, args = pre[0], pre[1:]
			_ = recv
		} else {
			recv = x.val(fr, st, cc.Value)
			args = evalArgs()
		}
		x.invoke(fr, st, cc, recv, args, ins, k)
		return
	}
	switch callee := cc.Value.(type) {
	case *ssa.Builtin:
		res := x.builtin(fr, st, callee, evalArgs(), cc, ins)
		k(st, fr, res)
		return
	case *ssa.Function:
		x.staticCall(fr, st, callee, evalArgs(), ins, k)
		return
	}
	// dynamic function value
	var fv Val
	var args []Val
	if pre != nil {
		fv, args = pre[0], pre[1:]
	} else {
		fv = x.val(fr, st, cc.Value)
		args = evalArgs()
	}
	if c, ok := fv.(Clo); ok {
		x.staticCallClo(fr, st, c, args, ins, k)
		return
	}
	if sc, ok := fv.(Sc); ok {
		if c, ok := x.closures[sc.T.S]; ok {
			x.staticCallClo(fr, st, c, args, ins, k)
			return
		}
	}
	// a function-typed parameter declared pure by the contract (opt purecalls name): reads nothing we rely on, changes nothing
	if prm, ok := cc.Value.(*ssa.Parameter); ok && fr.depth == 0 {
		for _, n := range strings.Fields(x.c.Opts["purecalls"]) {
			if n == prm.Name() {
				x.note("calls of the function parameter " + n + " of " + x.c.Key + " are assumed to be side-effect free (checked at its call sites only informally)")
				var res []Val
				sig := cc.Signature()
				if sig.Results().Len() == 1 && len(args) == 1 {
					if a, ok := args[0].(Sc); ok {
						// a pure function of its argument: the same uninterpreted function as applies(name, arg) in specs
						fn := quoteSym("param:" + n)
						rs := x.sortOf(sig.Results().At(0).Type())
						x.decls.add(fn, fmt.Sprintf("(declare-fun %s (%s) %s)", fn, a.T.Sort, rs))
						k(st, fr, []Val{Sc{app(rs, fn, a.T), sig.Results().At(0).Type()}})
						return
					}
				}
				for i := 0; i < sig.Results().Len(); i++ {
					res = append(res, x.freshVal(st, "pc", sig.Results().At(i).Type()))
				}
				k(st, fr, res)
				return
			}
		}
	}
	// unknown function value: named func type contract?
	if key := funcTypeKey(cc.Value.Type()); key != "" {
		if c, ok := x.prog.specs.Funcs[key]; ok {
			x.applyContract(fr, st, c, cc.Signature(), append([]Val{fv}, args...), ins, key, k)
			return
		}
	}
	x.havocCall(fr, st, cc.Signature(), "dynamic call of "+cc.Value.Name()+" ("+typeStr(cc.Value.Type())+")", ins, k)
}

func funcTypeKey(t types.Type) string {
	if n, ok := t.(*types.Named); ok && n.Obj().Pkg() != nil {
		return "functype:" + n.Obj().Pkg().Name() + "." + n.Obj().Name()
	}
	return ""
}

func (x *Exec) staticCallClo(fr *Frame, st *State, c Clo, args []Val, ins ssa.Instruction, k kont) {
	if len(c.Bind) == 0 {
		x.staticCall(fr, st, c.Fn, args, ins, k)
		return
	}
	if c.Fn.Blocks == nil || x.loopInfoOf(c.Fn).hasLoops() || fr.depth >= 4 {
		x.havocCall(fr, st, c.Fn.Signature, "closure "+c.Fn.Name()+" not inlinable", ins, k)
		return
	}
	x.inline(fr, st, c.Fn, args, c.Bind, ins, k)
}

func (x *Exec) staticCall(fr *Frame, st *State, callee *ssa.Function, args []Val, ins ssa.Instruction, k kont) {
	key := calleeKey(callee)
	if x.libCall(fr, st, key, callee, args, ins, k) {
		return
	}
	if c, ok := x.prog.specs.Funcs[key]; ok && !c.Inline {
		x.applyContract(fr, st, c, callee.Signature, args, ins, key, k)
		return
	}
	// inline small loop-free functions
	if callee.Blocks != nil && !x.loopInfoOf(callee).hasLoops() && fr.depth < 4 && !x.onStack(fr, callee) && instrCount(callee) <= 120 {
		x.inline(fr, st, callee, args, nil, ins, k)
		return
	}
	x.havocCall(fr, st, callee.Signature, "call of "+key+" without contract", ins, k)
}

func instrCount(f *ssa.Function) int {
	n := 0
	for _, b := range f.Blocks {
		n += len(b.Instrs)
	}
	return n
}

func (x *Exec) onStack(fr *Frame, f *ssa.Function) bool {
	for _, g := range x.inlineStack {
		if g == f {
			return true
		}
	}
	return fr.fn == f
}

func (x *Exec) inline(fr *Frame, st *State, callee *ssa.Function, args []Val, bind []Val, ins ssa.Instruction, k kont) {
	nf := &Frame{fn: callee, vals: map[ssa.Value]Val{}, regs: map[*ssa.Alloc]Val{}, iters: map[*ssa.Range]Term{}, loopIn: map[int]bool{}, depth: fr.depth + 1}
	for i, p := range callee.Params {
		nf.vals[p] = args[i]
	}
	for i, fv := range callee.FreeVars {
		nf.vals[fv] = bind[i]
	}
	x.inlineStack = append(x.inlineStack, callee)
	caller := fr
	n := len(x.inlineStack)
	x.runBlock(nf, st, callee.Blocks[0], nil, func(st2 *State, _ *Frame, res []Val) {
		saved := x.inlineStack
		x.inlineStack = x.inlineStack[:n-1]
		k(st2, caller.clone(), res)
		x.inlineStack = saved
	})
	x.inlineStack = x.inlineStack[:n-1]
}

// havocCall models a call about which nothing is known.
func (x *Exec) havocCall(fr *Frame, st *State, sig *types.Signature, why string, ins ssa.Instruction, k kont) {
	x.note("havoc: " + why + " (whole heap forgotten, results unconstrained)")
	x.checkTypeInvs(fr, st, "before call")
	st.dirty = st.dirtyKeep
	st.invSeen = map[string]bool{}
	for _, v := range fr.vals {
		_ = v
	}
	x.havocCallee(st, true, nil, nil, false)
	na := x.fresh("alloc", sInt)
	st.assume(app(sBool, "<=", st.alloc, na))
	st.alloc = na
	var res []Val
	for i := 0; i < sig.Results().Len(); i++ {
		res = append(res, x.freshVal(st, "hres", sig.Results().At(i).Type()))
	}
	st.markBoundary()
	k(st, fr, res)
}

// ---- builtins ----

func (x *Exec) builtin(fr *Frame, st *State, b *ssa.Builtin, args []Val, cc *ssa.CallCommon, ins ssa.Instruction) []Val {
	switch b.Name() {
	case "len":
		switch a := args[0].(type) {
		case Sl:
			return []Val{Sc{x.intFromMath(a.Len), types.Typ[types.Int]}}
		case Sc:
			if a.T.Sort == sStr {
				r := app(sInt, "str.len_", a.T)
				st.assume(app(sBool, "<=", intLit(0), r))
				return []Val{Sc{x.intFromMath(r), types.Typ[types.Int]}}
			}
			if _, ok := a.GT.Underlying().(*types.Map); ok {
				return []Val{Sc{x.intFromMath(x.mapLen(st, a)), types.Typ[types.Int]}}
			}
		}
	case "cap":
		if a, ok := args[0].(Sl); ok {
			return []Val{Sc{x.intFromMath(a.Cap), types.Typ[types.Int]}}
		}
	case "append":
		s := args[0].(Sl)
		switch t := args[1].(type) {
		case Sl:
			return []Val{x.appendOp(fr, st, s, t)}
		}
	case "copy":
		d := args[0].(Sl)
		if s, ok := args[1].(Sl); ok {
			return []Val{Sc{x.copyOp(st, d, s), types.Typ[types.Int]}}
		}
	case "delete":
		m := args[0].(Sc)
		x.mapDelete(st, m, args[1])
		return nil
	case "print", "println":
		return nil
	case "ssa:wrapnilchk":
		x.nilCheck(fr, st, args[0], ins, "method value on nil pointer")
		return []Val{args[0]}
	case "min", "max":
		a, bb := args[0].(Sc), args[1].(Sc)
		if a.T.Sort == sInt && len(args) == 2 {
			c := app(sBool, "<=", a.T, bb.T)
			if b.Name() == "max" {
				c = app(sBool, ">=", a.T, bb.T)
			}
			return []Val{Sc{mkIte(c, a.T, bb.T), a.GT}}
		}
		if a.T.Sort == sF64 && len(args) == 2 {
			// Go: NaN if either operand is NaN; -0 is smaller than +0
			nan := mkOr(app(sBool, "fp.isNaN", a.T), app(sBool, "fp.isNaN", bb.T))
			lt, gt := app(sBool, "fp.lt", a.T, bb.T), app(sBool, "fp.gt", a.T, bb.T)
			neg := app(sBool, "fp.isNegative", a.T)
			var pick Term
			if b.Name() == "min" {
				pick = mkIte(lt, a.T, mkIte(gt, bb.T, mkIte(neg, a.T, bb.T)))
			} else {
				pick = mkIte(gt, a.T, mkIte(lt, bb.T, mkIte(neg, bb.T, a.T)))
			}
			return []Val{Sc{mkIte(nan, Term{S: "(_ NaN 11 53)", Sort: sF64}, pick), a.GT}}
		}
	}
	fail("unsupported builtin %s(%T...)", b.Name(), args[0])
	return nil
}

func (x *Exec) intFromMath(t Term) Term {
	if x.bv {
		fail("bv64 mode: len/cap not supported (no Int<->BV bridge)")
	}
	return t
}

// elemLeafSorts enumerates the leaf classes of a slice element type.
func (x *Exec) elemClasses(et types.Type) (classes []string, sorts []string) {
	return x.elemClassesOf(Term{}, et)
}

func (x *Exec) elemClassesOf(base Term, et types.Type) (classes []string, sorts []string) {
	x.forLeaves(x.elemPrefix(base, et), et, func(class string, t types.Type, sp bool) {
		classes = append(classes, class)
		if sp {
			sorts = append(sorts, sInt)
		} else {
			sorts = append(sorts, x.heapSort(t))
		}
	})
	return
}

func (x *Exec) appendOp(fr *Frame, st *State, s, t Sl) Sl {
	et := s.GT.Underlying().(*types.Slice).Elem()
	classes, sorts := x.elemClasses(et)
	n := t.Len
	newLen := x.def(st, "alen", app(sInt, "+", s.Len, n))
	fits := x.def(st, "fits", app(sBool, "<=", newLen, s.Cap))
	if s.Cap.S == "0" {
		fits = mkEq(n, intLit(0))
	}
	r := x.newRef(st, "append")
	ncap := x.fresh("acap", sInt)
	st.assume(app(sBool, "<=", newLen, ncap))
	st.assume(app(sBool, "<=", ncap, bigIntLit("281474976710656")))
	newBase := x.def(st, "abase", mkIte(fits, s.Base, r))
	newOff := x.def(st, "aoff", mkIte(fits, s.Off, intLit(0)))
	newCap := x.def(st, "acap", mkIte(fits, s.Cap, ncap))
	// appending nothing to a nil slice yields nil
	if true {
		newBase = x.def(st, "abase", mkIte(mkAnd(mkEq(n, intLit(0)), fits), s.Base, newBase))
	}
	x.alts[newBase.S] = []Term{s.Base, r}
	for ci, class := range classes {
		srt := sorts[ci]
		A := x.classTermSort(st, class, arr(sInt, arr(sInt, srt)))
		oldInner := x.outerSelect(A, s.Base)
		srcClasses, _ := x.elemClassesOf(t.Base, et)
		src := x.outerSelect(x.classTermSort(st, srcClasses[ci], arr(sInt, arr(sInt, srt))), t.Base)
		var inner Term
		if n.S == "1" {
			e := mkSelect(src, t.Off)
			inPlace := mkStore(oldInner, app(sInt, "+", s.Off, s.Len), e)
			fr2 := x.fresh("arr", arr(sInt, srt))
			st.assume(Term{fmt.Sprintf("(forall ((j Int)) (! (=> (and (<= 0 j) (< j %s)) (= (select %s j) (select %s (+ %s j)))) :pattern ((select %s j))))", s.Len.S, fr2.S, oldInner.S, s.Off.S, fr2.S), sBool})
			st.assume(mkEq(mkSelect(fr2, s.Len), e))
			inner = mkIte(fits, inPlace, fr2)
		} else {
			a2 := x.fresh("arr", arr(sInt, srt))
			lo := x.def(st, "lo", app(sInt, "+", newOff, s.Len))
			hi := x.def(st, "hi", app(sInt, "+", newOff, newLen))
			st.assume(Term{fmt.Sprintf("(forall ((j Int)) (! (and (=> (and (<= %s j) (< j %s)) (= (select %s j) (select %s (+ %s (- j %s))))) (=> (and %s (not (and (<= %s j) (< j %s)))) (= (select %s j) (select %s j))) (=> (and (not %s) (<= 0 j) (< j %s)) (= (select %s j) (select %s (+ %s j))))) :pattern ((select %s j))))",
				lo.S, hi.S, a2.S, src.S, t.Off.S, lo.S,
				fits.S, lo.S, hi.S, a2.S, oldInner.S,
				fits.S, s.Len.S, a2.S, oldInner.S, s.Off.S, a2.S), sBool})
			inner = a2
		}
		x.setClassStore(st, class, A, newBase, inner)
	}
	return Sl{newBase, newOff, newLen, newCap, s.GT}
}

func (x *Exec) copyOp(st *State, d, s Sl) Term {
	et := d.GT.Underlying().(*types.Slice).Elem()
	classes, sorts := x.elemClasses(et)
	n := x.def(st, "cpn", mkIte(app(sBool, "<=", d.Len, s.Len), d.Len, s.Len))
	for ci, class := range classes {
		srt := sorts[ci]
		A := x.classTermSort(st, class, arr(sInt, arr(sInt, srt)))
		oldInner := x.outerSelect(A, d.Base)
		srcClasses, _ := x.elemClassesOf(s.Base, et)
		src := x.outerSelect(x.classTermSort(st, srcClasses[ci], arr(sInt, arr(sInt, srt))), s.Base)
		a2 := x.fresh("arr", arr(sInt, srt))
		hi := x.def(st, "hi", app(sInt, "+", d.Off, n))
		srcIdx := app(sInt, "+", s.Off, app(sInt, "-", Term{"j", sInt}, d.Off))
		st.assume(Term{fmt.Sprintf("(forall ((j Int)) (! (and (=> (and (<= %s j) (< j %s)) (= (select %s j) (select %s %s))) (=> (not (and (<= %s j) (< j %s))) (= (select %s j) (select %s j)))) :pattern ((select %s j))))",
			d.Off.S, hi.S, a2.S, src.S, srcIdx.S,
			d.Off.S, hi.S, a2.S, oldInner.S, a2.S), sBool})
		x.setClassStore(st, class, A, d.Base, a2)
	}
	return n
}

// ---- library (trusted) semantics that need engine support ----

func (x *Exec) libCall(fr *Frame, st *State, key string, callee *ssa.Function, args []Val, ins ssa.Instruction, k kont) bool {
	switch key {
	case "fmt.Errorf":
		x.note("trusted: fmt.Errorf returns a fresh non-nil error that wraps exactly its %w operand")
		f, ok := constString(callee, ins, 0)
		va := args[1].(Sl)
		r := x.newRef(st, "err")
		tag := intLit(9001)
		e := x.def(st, "err", app(sIface, "iptr", tag, r))
		if ok {
			wi := wrapVerbIndex(f)
			if wi >= 0 {
				A := x.classTermSort(st, x.elemPrefix(va.Base, va.GT.Underlying().(*types.Slice).Elem()), arr(sInt, arr(sInt, sIface)))
				inner := x.def(st, "werr", mkSelect(x.outerSelect(A, va.Base), app(sInt, "+", va.Off, intLit(int64(wi)))))
				st.assume(x.wrapsOnly(e, inner))
			} else {
				st.assume(x.wrapsOnly(e, tNilI))
			}
		} else {
			x.note("fmt.Errorf with non-constant format: wrapping unknown")
			st.assume(app(sBool, "wraps_", e, e))
		}
		k(st, fr, []Val{Sc{e, callee.Signature.Results().At(0).Type()}})
		return true
	case "errors.New":
		x.note("trusted: errors.New returns a fresh non-nil error wrapping nothing")
		r := x.newRef(st, "err")
		tag := intLit(9100)
		e := x.def(st, "err", app(sIface, "iptr", tag, r))
		st.assume(x.wrapsOnly(e, tNilI))
		k(st, fr, []Val{Sc{e, callee.Signature.Results().At(0).Type()}})
		return true
	case "errors.Is":
		x.note("trusted: errors.Is(err, target) == wraps(err, target)")
		a, b := args[0].(Sc).T, args[1].(Sc).T
		k(st, fr, []Val{Sc{x.def(st, "is", mkAnd(mkNot(mkEq(a, tNilI)), app(sBool, "wraps_", a, b))), types.Typ[types.Bool]}})
		return true
	}
	return false
}

// wrapsOnly: forall s. wraps(e, s) <=> (s == e || wraps(inner, s)); inner == inil means "wraps nothing else".
func (x *Exec) wrapsOnly(e, inner Term) Term {
	if inner.S == "inil" {
		return Term{fmt.Sprintf("(forall ((s Iface)) (! (= (wraps_ %s s) (= s %s)) :pattern ((wraps_ %s s))))", e.S, e.S, e.S), sBool}
	}
	return Term{fmt.Sprintf("(forall ((s Iface)) (! (= (wraps_ %s s) (or (= s %s) (and (not (= %s inil)) (wraps_ %s s)))) :pattern ((wraps_ %s s))))", e.S, e.S, inner.S, inner.S, e.S), sBool}
}

func constString(callee *ssa.Function, ins ssa.Instruction, argIdx int) (string, bool) {
	var cc *ssa.CallCommon
	switch i := ins.(type) {
	case *ssa.Call:
		cc = &i.Call
	case *ssa.Defer:
		cc = &i.Call
	}
	if cc == nil || argIdx >= len(cc.Args) {
		return "", false
	}
	if c, ok := cc.Args[argIdx].(*ssa.Const); ok && c.Value != nil && c.Value.Kind() == constant.String {
		return constant.StringVal(c.Value), true
	}
	return "", false
}

// wrapVerbIndex returns the operand index of the (first) %w verb in a format string, or -1.
func wrapVerbIndex(f string) int {
	idx := 0
	for i := 0; i < len(f); i++ {
		if f[i] != '%' {
			continue
		}
		i++
		if i < len(f) && f[i] == '%' {
			continue
		}
		// skip flags/width
		for i < len(f) && strings.ContainsRune("+-# 0123456789.*[]", rune(f[i])) {
			i++
		}
		if i < len(f) {
			if f[i] == 'w' {
				return idx
			}
			idx++
		}
	}
	return -1
}

// ---- interface method calls ----

func (x *Exec) invoke(fr *Frame, st *State, cc *ssa.CallCommon, recv Val, args []Val, ins ssa.Instruction, k kont) {
	it := recv.(Sc)
	name := x.siteName(fr.fn, "nil", ins)
	if fr.depth > 0 {
		name = fr.fn.Name() + ":" + name
	}
	nn := mkNot(mkEq(it.T, tNilI))
	x.oblige(st, "nil", name, x.safetyProps(), nn, "method call on nil interface: "+cc.Method.Name(), posStr(x.prog.fset, ins.Pos()))
	st.assume(nn)
	key := "iface:"
	if n, ok := types.Unalias(cc.Value.Type()).(*types.Named); ok {
		if n.Obj().Pkg() != nil {
			key += n.Obj().Pkg().Name() + "."
		}
		key += "(" + n.Obj().Name() + ")." + cc.Method.Name()
	} else {
		key += "(" + typeStr(cc.Value.Type()) + ")." + cc.Method.Name()
	}
	if c, ok := x.prog.specs.Funcs[key]; ok {
		if c.Opts["dispatch"] != "" {
			x.dispatch(fr, st, cc, it, args, ins, k)
			return
		}
		x.applyContract(fr, st, c, cc.Signature(), append([]Val{recv}, args...), ins, key, k)
		return
	}
	x.havocCall(fr, st, cc.Signature(), "interface method "+key+" without contract", ins, k)
}

// dispatch: closed-world case split of an interface method call over the concrete types of the loaded packages
// that implement the interface (opt dispatch on the interface method's contract). Each case calls the concrete
// method like a static call (its own contract, or inlined).
func (x *Exec) dispatch(fr *Frame, st *State, cc *ssa.CallCommon, recv Sc, args []Val, ins ssa.Instruction, k kont) {
	iface, ok := cc.Value.Type().Underlying().(*types.Interface)
	if !ok {
		fail("dispatch on non-interface %s", cc.Value.Type())
	}
	type impl struct {
		t  types.Type
		fn *ssa.Function
	}
	var impls []impl
	for _, t := range x.implementers(iface) {
		sel := x.prog.prog.MethodSets.MethodSet(t).Lookup(cc.Method.Pkg(), cc.Method.Name())
		if sel == nil {
			continue
		}
		if fn := x.prog.prog.MethodValue(sel); fn != nil {
			impls = append(impls, impl{t, fn})
		}
	}
	if len(impls) == 0 {
		fail("dispatch: no implementation of %s.%s in the loaded packages", typeStr(cc.Value.Type()), cc.Method.Name())
	}
	x.note("closed world: " + typeStr(cc.Value.Type()) + "." + cc.Method.Name() + " is implemented only by the types of the loaded packages of /repo")
	for _, im := range impls {
		cond := x.hasTag(recv.T, im.t)
		if cond.S == "false" {
			continue
		}
		st2, fr2 := st.clone(), fr.clone()
		st2.pc = append(st2.pc, cond)
		rv := x.unbox(recv.T, im.t)
		x.staticCall(fr2, st2, im.fn, append([]Val{rv}, args...), ins, k)
	}
}

// ---- contract application ----

func (x *Exec) applyContract(fr *Frame, st *State, c *Contract, sig *types.Signature, args []Val, ins ssa.Instruction, key string, k kont) {
	env := map[string]Val{}
	names := c.Params
	if c.Recv != "" {
		names = append([]string{c.Recv}, c.Params...)
	}
	if strings.HasPrefix(key, "functype:") {
		names = append([]string{"self"}, c.Params...)
	}
	if len(names) != len(args) {
		fail("contract %s: %d parameter names for %d arguments", c.Key, len(names), len(args))
	}
	for i, n := range names {
		env[n] = args[i]
	}
	short := shortKey(key)
	site := x.callSiteOrd(fr.fn, ins, short)
	pfx := ""
	if fr.depth > 0 {
		pfx = fr.fn.Name() + ":"
	}
	// receiver must be non-nil for pointer-receiver methods
	if c.Recv != "" && !c.Iface && c.Opts["nilrecv"] == "" {
		if _, isPtr := args[0].GoType().Underlying().(*types.Pointer); isPtr {
			g := x.nonNil(args[0])
			x.oblige(st, "nil", fmt.Sprintf("%snil-recv:%s@%d", pfx, short, site), x.safetyProps(), g, "receiver of "+short+" is non-nil", posStr(x.prog.fset, ins.Pos()))
			st.assume(g)
		}
	}
	ev := &specEnv{x: x, st: st, old: nil, vars: env, fr: nil, c: c}
	x.bindLets(ev, c)
	for _, rq := range c.Requires {
		t := ev.evalBool(rq.Text)
		if strings.HasPrefix(rq.Label, "assumed-") {
			// an invariant of all reachable objects that callers cannot re-derive locally: assumed, and listed
			x.note("precondition of " + c.Key + " assumed at its call sites (global data-structure invariant): " + rq.Text)
			st.assume(t)
			continue
		}
		props := rq.Props
		if len(props) == 0 {
			props = x.safetyProps()
		}
		x.oblige(st, "pre", fmt.Sprintf("%spre:%s@%d#%s", pfx, short, site, strings.TrimPrefix(rq.Name(), "requires#")), props, t, "precondition of "+short+": "+rq.Text, posStr(x.prog.fset, ins.Pos()))
		st.assume(t)
	}
	if fr.depth == 0 {
		x.propagationBeforeCall(st, short, site, posStr(x.prog.fset, ins.Pos()))
	}
	for _, a := range args {
		x.escape(st, a, true)
	}
	x.checkTypeInvs(fr, st, "before call of "+short)
	st.dirty = st.dirtyKeep
	st.invSeen = map[string]bool{}
	pre := st.clone()
	pre.noSide = true
	// frame
	x.byCall = true
	if !c.ModSet {
		x.note("callee " + key + " has no modifies clause: whole heap forgotten at call")
		x.havocCallee(st, true, nil, nil, true)
	} else {
		x.applyModifies(ev, st, c.Modifies)
	}
	x.byCall = false
	na := x.fresh("alloc", sInt)
	st.assume(app(sBool, "<=", st.alloc, na))
	st.alloc = na
	// results
	var res []Val
	if c.Pure {
		res = []Val{x.pureResult(st, key, sig, args)}
	} else {
		for i := 0; i < sig.Results().Len(); i++ {
			res = append(res, x.freshVal(st, "r"+fmt.Sprint(i), sig.Results().At(i).Type()))
		}
	}
	if len(c.Results) == len(res) {
		for i, n := range c.Results {
			env[n] = res[i]
		}
	} else if len(c.Results) != 0 {
		fail("contract %s: %d result names for %d results", c.Key, len(c.Results), len(res))
	}
	ev2 := &specEnv{x: x, st: st, old: pre, vars: env, c: c}
	x.bindLets(ev2, c)
	for _, en := range c.Ensures {
		if en.MustFail || clauseUsesCallLog(c, en.Text) || strings.HasPrefix(en.Label, "lemma") {
			// clauses about the callee's own call log describe its internals; they are proved on its body, not assumed here
			continue
		}
		st.assume(ev2.evalBool(en.Text))
	}
	st.log = append(st.log, LogEntry{Key: key, Callee: short, Args: args, Res: res, Depth: fr.depth})
	if fr.depth == 0 {
		x.propagationAfterCall(st, short, res)
	}
	st.markBoundary()
	k(st, fr, res)
}

func (x *Exec) bindLets(ev *specEnv, c *Contract) {
	for _, l := range c.Lets {
		func() {
			defer func() {
				if r := recover(); r != nil {
					if _, ok := r.(unsupported); ok {
						// a let that cannot be evaluated yet (e.g. mentions results) is skipped until it can
						return
					}
					panic(r)
				}
			}()
			ev.vars[l.Name] = ev.eval(parseSpecExpr(l.Text))
		}()
	}
}

func (x *Exec) pureResult(st *State, key string, sig *types.Signature, args []Val) Val {
	fn := quoteSym("fn:" + key)
	var sorts []string
	var ts []Term
	for _, a := range args {
		switch a := a.(type) {
		case Sc:
			sorts = append(sorts, a.T.Sort)
			ts = append(ts, a.T)
		case Sl:
			et := a.GT.Underlying().(*types.Slice).Elem()
			srt := x.heapSort(et)
			A := x.classTermSort(st, x.elemPrefix(a.Base, et), arr(sInt, arr(sInt, srt)))
			sorts = append(sorts, arr(sInt, srt), sInt, sInt)
			ts = append(ts, x.outerSelect(A, a.Base), a.Off, a.Len)
		default:
			fail("pure function %s with %T argument", key, a)
		}
	}
	rt := sig.Results().At(0).Type()
	rs := x.sortOf(rt)
	if rs == "" {
		fail("pure function %s with composite result", key)
	}
	x.decls.add(fn, fmt.Sprintf("(declare-fun %s (%s) %s)", fn, strings.Join(sorts, " "), rs))
	v := Sc{x.def(st, "pure", app(rs, fn, ts...)), rt}
	x.assumeValid(st, v)
	return v
}

// callSiteOrd numbers the call sites of one callee inside a function in source order.
func (x *Exec) callSiteOrd(fn *ssa.Function, ins ssa.Instruction, short string) int {
	sm := x.prog.siteNames(fn)
	if n, ok := sm["call:"+fmt.Sprintf("%p", ins)]; ok {
		var k int
		fmt.Sscanf(n, "%d", &k)
		return k
	}
	return 0
}

// applyModifies havocs exactly the locations listed.
func (x *Exec) applyModifies(ev *specEnv, st *State, items []string) {
	// every location is evaluated in the state before the call, whatever the order of the items
	snap := st.clone()
	snap.noSide = true
	ev = ev.withState(snap)
	for _, it := range items {
		switch {
		case it == "everything":
			x.havocCallee(st, true, nil, nil, x.byCall)
		case strings.HasPrefix(it, "allbut "):
			x.havocCallee(st, true, nil, x.frameSet(strings.TrimSpace(strings.TrimPrefix(it, "allbut ")), ev.c), x.byCall)
		case strings.HasPrefix(it, "class "):
			x.havocCallee(st, false, []string{strings.TrimSpace(strings.TrimPrefix(it, "class "))}, nil, x.byCall)
		case strings.HasPrefix(it, "owned "):
			x.havocCallee(st, false, x.ownedClasses(strings.TrimSpace(strings.TrimPrefix(it, "owned ")), ev.c), nil, x.byCall)
		default:
			x.havocLocation(ev, st, it)
		}
	}
}

// havocLocation forgets one location: x.f, *p, m[*], s[*].
func (x *Exec) havocLocation(ev *specEnv, st *State, it string) {
	if strings.HasSuffix(it, "[*]") {
		base := ev.eval(parseSpecExpr(strings.TrimSuffix(it, "[*]")))
		switch b := base.(type) {
		case Sl:
			et := b.GT.Underlying().(*types.Slice).Elem()
			classes, sorts := x.elemClassesOf(b.Base, et)
			for i, class := range classes {
				A := x.classTermSort(st, class, arr(sInt, arr(sInt, sorts[i])))
				x.setClassStore(st, class, A, b.Base, x.fresh("hv", arr(sInt, sorts[i])))
			}
		case Sc:
			mt, ok := b.GT.Underlying().(*types.Map)
			if !ok {
				fail("modifies %s: not a slice or map", it)
			}
			d, vc, sz := x.mapClassesOf(b.T, mt)
			ks := x.heapSort(mt.Key())
			A := x.classTermSort(st, d, arr(sInt, arr(ks, sBool)))
			x.setClass(st, d, mkStore(A, b.T, x.fresh("hv", arr(ks, sBool))))
			S := x.classTermSort(st, sz, arr(sInt, sInt))
			nsz := x.fresh("hv", sInt)
			st.assume(app(sBool, "<=", intLit(0), nsz))
			x.setClass(st, sz, mkStore(S, b.T, nsz))
			x.forLeaves(vc, mt.Elem(), func(class string, t types.Type, sp bool) {
				srt := sInt
				if !sp {
					srt = x.heapSort(t)
				}
				V := x.classTermSort(st, class, arr(sInt, arr(ks, srt)))
				x.setClass(st, class, mkStore(V, b.T, x.fresh("hv", arr(ks, srt))))
			})
		default:
			fail("modifies %s: unsupported base %T", it, base)
		}
		return
	}
	p := ev.evalLoc(parseSpecExpr(it))
	v := x.freshVal(st, "hv", p.Elem)
	x.store(st, p, v)
}

// ownedClasses returns the heap classes holding the maps of an owned field ("Type.field", package of the contract).
func (x *Exec) ownedClasses(name string, c *Contract) []string {
	q := name
	if c != nil && c.Pkg != "" && !strings.Contains(strings.TrimSuffix(name, name[strings.LastIndex(name, "."):]), ".") {
		q = c.Pkg + "." + name
	}
	i := strings.LastIndex(q, ".")
	t, ok := x.prog.namedType(q[:i])
	if !ok {
		fail("owned %s: unknown type", name)
	}
	stt, ok := t.Underlying().(*types.Struct)
	if !ok {
		fail("owned %s: not a struct", name)
	}
	for k := 0; k < stt.NumFields(); k++ {
		if stt.Field(k).Name() == q[i+1:] {
			mt, ok := stt.Field(k).Type().Underlying().(*types.Map)
			if !ok {
				fail("owned %s: not a map field", name)
			}
			d, v, s := mapClasses(mt)
			return []string{d + "@" + q, v + "@" + q, s + "@" + q}
		}
	}
	fail("owned %s: no such field", name)
	return nil
}

// frameSet expands a named frame set (//@ frameset name = a, b, c) or a literal comma list of class prefixes.
func (x *Exec) frameSet(name string, c *Contract) []string {
	var out []string
	for _, part := range strings.Fields(strings.ReplaceAll(name, ",", " ")) {
		if fs, ok := x.prog.specs.FrameSets[part]; ok {
			for _, f := range fs {
				if _, nested := x.prog.specs.FrameSets[f]; nested && f != part {
					out = append(out, x.frameSet(f, c)...)
				} else {
					out = append(out, f)
				}
			}
		} else {
			out = append(out, part)
		}
	}
	return out
}

// shortKey: contract key without the iface:/functype: marker and the package qualifier.
func shortKey(key string) string {
	s := strings.TrimPrefix(strings.TrimPrefix(key, "iface:"), "functype:")
	if i := strings.Index(s, "."); i >= 0 && !strings.HasPrefix(s, "(") {
		s = s[i+1:]
	}
	return s
}

func mentionsCallLog(text string) bool {
	for _, k := range []string{"ncalls(", "callarg(", "callres(", "pending("} {
		if strings.Contains(text, k) {
			return true
		}
	}
	return false
}

// clauseUsesCallLog: the clause mentions the call log directly or through a let binding.
func clauseUsesCallLog(c *Contract, text string) bool {
	if mentionsCallLog(text) {
		return true
	}
	dep := map[string]bool{}
	for changed := true; changed; {
		changed = false
		for _, l := range c.Lets {
			if dep[l.Name] {
				continue
			}
			if mentionsCallLog(l.Text) || usesAny(l.Text, dep) {
				dep[l.Name] = true
				changed = true
			}
		}
	}
	return usesAny(text, dep)
}

func usesAny(text string, names map[string]bool) bool {
	for n := range names {
		for from := 0; ; {
			i := strings.Index(text[from:], n)
			if i < 0 {
				break
			}
			i += from
			end := i + len(n)
			isId := func(b byte) bool {
				return b == '_' || b >= '0' && b <= '9' || b >= 'a' && b <= 'z' || b >= 'A' && b <= 'Z'
			}
			if (i == 0 || !isId(text[i-1])) && (end == len(text) || !isId(text[end])) {
				return true
			}
			from = i + 1
		}
	}
	return false
}

// implementers: the concrete types of the loaded packages (T or *T) that implement iface, in a stable order.
func (x *Exec) implementers(iface *types.Interface) []types.Type {
	var out []types.Type
	for _, p := range x.prog.pkgs {
		var names []string
		for n := range p.Members {
			names = append(names, n)
		}
		sort.Strings(names)
		for _, n := range names {
			tm, ok := p.Members[n].(*ssa.Type)
			if !ok {
				continue
			}
			if _, isI := tm.Type().Underlying().(*types.Interface); isI {
				continue
			}
			for _, t := range []types.Type{tm.Type(), types.NewPointer(tm.Type())} {
				if types.Implements(t, iface) {
					out = append(out, t)
				}
			}
		}
	}
	return out
}
