package main

import (
	"fmt"
	"os"
	"regexp"
	"strings"
)

var symRe = regexp.MustCompile(`\|[^|]*\||[A-Za-z_.$!@][A-Za-z0-9_.$!@:#\-]*`)

// symsOf extracts candidate symbol names from SMT text.
func (x *Exec) symsOf(s string) []string {
	if c, ok := x.symCache[s]; ok {
		return c
	}
	seen := map[string]bool{}
	var out []string
	for _, m := range symRe.FindAllString(s, -1) {
		if !seen[m] {
			seen[m] = true
			out = append(out, m)
		}
	}
	if x.symCache == nil {
		x.symCache = map[string][]string{}
	}
	x.symCache[s] = out
	return out
}

func isHub(sym string) bool {
	if strings.HasPrefix(sym, "|H:") || strings.HasPrefix(sym, "H:") {
		t := strings.Trim(sym, "|")
		if i := strings.LastIndex(t, "@"); i >= 0 && !strings.Contains(t[i:], "!") {
			return true
		}
	}
	return strings.HasPrefix(sym, "alloc0!")
}

// sliceAssumptions keeps every ground assumption and only those quantified assumptions that are
// connected to the goal through non-hub symbols (closure through definitions). Dropping assumptions is sound.
func (x *Exec) sliceAssumptions(st *State, goal Term) (keep []bool, dropped int) {
	defBody := map[string]string{}
	for _, d := range st.defs {
		// (define-fun NAME () SORT BODY)
		rest := d[len("(define-fun "):]
		var name string
		if strings.HasPrefix(rest, "|") {
			j := strings.Index(rest[1:], "|")
			name = rest[:j+2]
		} else {
			name = rest[:strings.Index(rest, " ")]
		}
		defBody[name] = d
	}
	rel := map[string]bool{}
	var work []string
	add := func(text string) {
		for _, s := range x.symsOf(text) {
			if !rel[s] {
				rel[s] = true
				work = append(work, s)
			}
		}
	}
	expand := func() {
		for len(work) > 0 {
			s := work[len(work)-1]
			work = work[:len(work)-1]
			if b, ok := defBody[s]; ok {
				add(b)
			}
		}
	}
	add(goal.S)
	expand()
	keep = make([]bool, len(st.pc))
	isQ := make([]bool, len(st.pc))
	for i, a := range st.pc {
		if strings.Contains(a.S, "(forall ") || strings.Contains(a.S, "(exists ") {
			isQ[i] = true
		} else {
			keep[i] = true
		}
	}
	changed := true
	for changed {
		changed = false
		for i, a := range st.pc {
			if keep[i] || !isQ[i] {
				continue
			}
			for _, s := range x.symsOf(a.S) {
				if rel[s] && !isHub(s) && (x.decls.text[s] != "" && !strings.HasPrefix(x.decls.text[s], "(declare-fun") || defBody[s] != "") {
					keep[i] = true
					if os.Getenv("EVYVC_DEBUG_SLICE") != "" {
						fmt.Fprintf(os.Stderr, "slice: keep %.80s via %s\n", a.S, s)
					}
					break
				}
			}
		}
	}
	for i := range keep {
		if !keep[i] {
			dropped++
		}
	}
	return
}
