package main

import (
	"fmt"
	"go/token"
	"go/types"
	"os"
	"path/filepath"
	"strings"
	"time"

	"golang.org/x/tools/go/packages"
	"golang.org/x/tools/go/ssa"
	"golang.org/x/tools/go/ssa/ssautil"
)

// Program is the loaded code plus specifications.
type Program struct {
	fset         *token.FileSet
	prog         *ssa.Program
	pkgs         []*ssa.Package
	byName       map[string]*ssa.Package
	specs        *Specs
	tags         map[string]int64
	tagNames     map[int64]string
	sites        map[*ssa.Function]map[string]string
	extraPrelude string
	repo         string
}

var repoPkgs = map[string][]string{
	"main": {"."},
	"all":  {".", "./pkg/lexer", "./pkg/parser", "./pkg/evaluator", "./pkg/bytecode", "./pkg/cli", "./pkg/cli/svg"},
}

func loadProgram(repo string, patterns []string, dir string) (*Program, error) {
	cfg := &packages.Config{
		Mode:       packages.LoadSyntax,
		Dir:        dir,
		BuildFlags: []string{"-tags=verif", "-mod=mod"},
		Env:        append(os.Environ(), "GOFLAGS=-mod=mod", "GOPROXY=off", "GOSUMDB=off", "GOTOOLCHAIN=local", "CGO_ENABLED=0"),
	}
	tLoad := time.Now()
	initial, err := packages.Load(cfg, patterns...)
	if err != nil {
		return nil, err
	}
	if os.Getenv("EVYVC_TIMING") != "" {
		fmt.Fprintf(os.Stderr, "packages.Load %.1fs\n", time.Since(tLoad).Seconds())
	}
	nerr := 0
	packages.Visit(initial, nil, func(p *packages.Package) {
		for _, e := range p.Errors {
			if strings.HasPrefix(p.PkgPath, "evylang.dev/") {
				fmt.Fprintf(os.Stderr, "load error: %v\n", e)
				nerr++
			}
		}
	})
	if nerr > 0 {
		return nil, fmt.Errorf("packages contain errors")
	}
	prog, pkgs := ssautil.AllPackages(initial, ssa.GlobalDebug|ssa.InstantiateGenerics)
	tB := time.Now()
	prog.Build()
	if os.Getenv("EVYVC_TIMING") != "" {
		fmt.Fprintf(os.Stderr, "ssa build %.1fs\n", time.Since(tB).Seconds())
	}
	p := &Program{fset: prog.Fset, prog: prog, byName: map[string]*ssa.Package{}, tags: map[string]int64{}, tagNames: map[int64]string{}, sites: map[*ssa.Function]map[string]string{}, repo: repo}
	for _, sp := range pkgs {
		if sp == nil {
			continue
		}
		p.pkgs = append(p.pkgs, sp)
	}
	for _, sp := range prog.AllPackages() {
		path := sp.Pkg.Path()
		if strings.HasPrefix(path, "evylang.dev/") {
			name := sp.Pkg.Name()
			if name == "main" && path != "evylang.dev/evy" {
				continue
			}
			if _, dup := p.byName[name]; !dup {
				p.byName[name] = sp
			}
		}
	}
	return p, nil
}

func (p *Program) typesPkg(name string) *types.Package {
	if sp, ok := p.byName[name]; ok {
		return sp.Pkg
	}
	for _, sp := range p.prog.AllPackages() {
		if sp.Pkg.Name() == name {
			return sp.Pkg
		}
	}
	return nil
}

// loadSpecs parses the contract files: contracts_verif.go of each loaded repo package plus /verif/spec/*.spec.
func (p *Program) loadSpecs(specDir string) error {
	p.specs = newSpecs()
	for name, sp := range p.byName {
		var dir string
		sp.Pkg.Scope()
		for _, f := range filesOfPkg(p, sp) {
			dir = filepath.Dir(f)
			break
		}
		if dir == "" {
			continue
		}
		matches, _ := filepath.Glob(filepath.Join(dir, "contracts*_verif.go"))
		for _, path := range matches {
			if err := p.specs.parseSpecFile(path, name); err != nil {
				return err
			}
		}
	}
	matches, _ := filepath.Glob(filepath.Join(specDir, "*.spec"))
	for _, m := range matches {
		if err := p.specs.parseSpecFile(m, ""); err != nil {
			return err
		}
	}
	return nil
}

func filesOfPkg(p *Program, sp *ssa.Package) []string {
	var out []string
	seen := map[string]bool{}
	for _, m := range sp.Members {
		pos := m.Pos()
		if pos.IsValid() {
			f := p.fset.Position(pos).Filename
			if !seen[f] {
				seen[f] = true
				out = append(out, f)
			}
		}
	}
	return out
}

// findFunc resolves a contract key to an SSA function.
func (p *Program) findFunc(key string) *ssa.Function {
	i := strings.Index(key, ".")
	if i < 0 {
		return nil
	}
	pkgName, rest := key[:i], key[i+1:]
	sp := p.byName[pkgName]
	if sp == nil {
		for _, q := range p.prog.AllPackages() {
			if q.Pkg.Path() == pkgName {
				sp = q
				break
			}
		}
		if sp == nil {
			for _, q := range p.prog.AllPackages() {
				if q.Pkg.Name() == pkgName && !strings.Contains(q.Pkg.Path(), "internal") {
					sp = q
					break
				}
			}
		}
	}
	if sp == nil {
		return nil
	}
	if strings.HasPrefix(rest, "(") {
		// method
		j := strings.Index(rest, ").")
		tn := rest[1:j]
		mn := rest[j+2:]
		ptr := strings.HasPrefix(tn, "*")
		tn = strings.TrimPrefix(tn, "*")
		obj := sp.Pkg.Scope().Lookup(tn)
		if obj == nil {
			return nil
		}
		var t types.Type = obj.Type()
		if ptr {
			t = types.NewPointer(t)
		}
		ms := p.prog.MethodSets.MethodSet(t)
		for k := 0; k < ms.Len(); k++ {
			if ms.At(k).Obj().Name() == mn {
				return p.prog.MethodValue(ms.At(k))
			}
		}
		return nil
	}
	if strings.Contains(rest, "$") {
		// anonymous function: parent$N
		parts := strings.Split(rest, "$")
		f := sp.Func(parts[0])
		for _, ps := range parts[1:] {
			if f == nil {
				return nil
			}
			var n int
			fmt.Sscanf(ps, "%d", &n)
			if n < 1 || n > len(f.AnonFuncs) {
				return nil
			}
			f = f.AnonFuncs[n-1]
		}
		return f
	}
	return sp.Func(rest)
}

func (p *Program) signatureOf(key string) *types.Signature {
	f := p.findFunc(key)
	if f != nil {
		return f.Signature
	}
	return nil
}

func (p *Program) namedType(qualified string) (types.Type, bool) {
	i := strings.Index(qualified, ".")
	if i < 0 {
		return nil, false
	}
	tp := p.typesPkg(qualified[:i])
	if tp == nil {
		return nil, false
	}
	obj := tp.Scope().Lookup(qualified[i+1:])
	if obj == nil {
		return nil, false
	}
	return obj.Type(), true
}

// siteNames assigns stable ordinal names to the safety sites and call sites of a function.
func (p *Program) siteNames(fn *ssa.Function) map[string]string {
	if m, ok := p.sites[fn]; ok {
		return m
	}
	m := map[string]string{}
	count := map[string]int{}
	add := func(kind string, ins ssa.Instruction) {
		count[kind]++
		m[kind+fmt.Sprintf("%p", ins)] = fmt.Sprintf("%s#%d", kind, count[kind])
	}
	for _, b := range fn.Blocks {
		for _, ins := range b.Instrs {
			switch ins := ins.(type) {
			case *ssa.FieldAddr, *ssa.Store, *ssa.MapUpdate:
				add("nil", ins)
			case *ssa.UnOp:
				if ins.Op == token.MUL {
					add("nil", ins)
				}
			case *ssa.IndexAddr:
				add("bounds", ins)
				add("nil", ins)
			case *ssa.Slice:
				add("bounds", ins)
				add("nil", ins)
			case *ssa.Lookup:
				add("bounds", ins)
			case *ssa.TypeAssert:
				add("typeassert", ins)
			case *ssa.BinOp:
				if ins.Op == token.QUO || ins.Op == token.REM {
					add("div", ins)
				}
				add("overflow", ins)
			case *ssa.MakeSlice:
				add("make", ins)
			case *ssa.Panic:
				add("unreachable", ins)
			case *ssa.Call:
				add("nil", ins)
				short := callShort(&ins.Call)
				count["call:"+short]++
				m["call:"+fmt.Sprintf("%p", ins)] = fmt.Sprint(count["call:"+short])
			case *ssa.Defer:
				short := callShort(&ins.Call)
				count["call:"+short]++
				m["call:"+fmt.Sprintf("%p", ins)] = fmt.Sprint(count["call:"+short])
			}
		}
	}
	p.sites[fn] = m
	return m
}

func callShort(cc *ssa.CallCommon) string {
	if cc.IsInvoke() {
		return cc.Method.Name()
	}
	if f, ok := cc.Value.(*ssa.Function); ok {
		k := calleeKey(f)
		return k[strings.Index(k, ".")+1:]
	}
	return cc.Value.Name()
}

// checkOwnership verifies the discipline behind `//@ owned T.f` (maps stored in field f are reachable only
// through that field): every store to the field stores a fresh make(map), and every value loaded from
// the field is used only as the operand of a map operation. Returns human-readable violations.
func (p *Program) checkOwnership() []string {
	var out []string
	if len(p.specs.Owned) == 0 {
		return nil
	}
	seenMsg := map[string]bool{}
	add := func(m string) {
		if !seenMsg[m] {
			seenMsg[m] = true
			out = append(out, m)
		}
	}
	fieldName := func(fa *ssa.FieldAddr) string {
		stt := fa.X.Type().Underlying().(*types.Pointer).Elem()
		return typeStr(stt) + "." + stt.Underlying().(*types.Struct).Field(fa.Field).Name()
	}
	var visit func(fn *ssa.Function)
	seen := map[*ssa.Function]bool{}
	visit = func(fn *ssa.Function) {
		if seen[fn] {
			return
		}
		seen[fn] = true
		for _, b := range fn.Blocks {
			for _, ins := range b.Instrs {
				switch ins := ins.(type) {
				case *ssa.Store:
					if fa, ok := ins.Addr.(*ssa.FieldAddr); ok && p.specs.Owned[fieldName(fa)] {
						if _, isSlice := ins.Val.Type().Underlying().(*types.Slice); isSlice {
							// owned slice: the stored value is nil, freshly made, or an append to the field's own value
							okStore := false
							switch v := ins.Val.(type) {
							case *ssa.MakeSlice:
								okStore = true
							case *ssa.Const:
								okStore = v.Value == nil
							case *ssa.Call:
								if bi, isB := v.Call.Value.(*ssa.Builtin); isB && bi.Name() == "append" {
									okStore = true
								}
							case *ssa.Slice:
								okStore = true
							}
							if !okStore {
								add(fmt.Sprintf("%s: store of an aliased slice into owned field %s (%s)", fn.String(), fieldName(fa), posStr(p.fset, ins.Pos())))
							}
							continue
						}
						if _, ok := ins.Val.(*ssa.MakeMap); !ok {
							add(fmt.Sprintf("%s: store of a non-fresh map into owned field %s (%s)", fn.String(), fieldName(fa), posStr(p.fset, ins.Pos())))
						}
					}
				case *ssa.UnOp:
					fa, ok := ins.X.(*ssa.FieldAddr)
					if !ok || ins.Op != token.MUL || !p.specs.Owned[fieldName(fa)] {
						continue
					}
					_, isSliceField := ins.Type().Underlying().(*types.Slice)
					for _, r := range *ins.Referrers() {
						switch r := r.(type) {
						case *ssa.Lookup, *ssa.MapUpdate, *ssa.Range, *ssa.DebugRef:
						case *ssa.IndexAddr, *ssa.Slice:
							if !isSliceField {
								add(fmt.Sprintf("%s: unexpected use of owned field %s", fn.String(), fieldName(fa)))
							}
						case *ssa.Store:
							// writing the field's own (appended) value back is checked at the store
						case *ssa.Call:
							if bi, ok := r.Call.Value.(*ssa.Builtin); ok && (bi.Name() == "len" || bi.Name() == "delete" || bi.Name() == "cap") {
								continue
							}
							if bi, ok := r.Call.Value.(*ssa.Builtin); ok && isSliceField && (bi.Name() == "copy" && len(r.Call.Args) == 2 && r.Call.Args[1] == ssa.Value(ins) || bi.Name() == "append") {
								continue
							}
							add(fmt.Sprintf("%s: map of owned field %s escapes into a call (%s)", fn.String(), fieldName(fa), posStr(p.fset, r.Pos())))
						default:
							add(fmt.Sprintf("%s: map of owned field %s escapes (%T at %s)", fn.String(), fieldName(fa), r, posStr(p.fset, ins.Pos())))
						}
					}
				case *ssa.MakeMap:
					// a map made for an owned field must not be used elsewhere
					owned := false
					for _, r := range *ins.Referrers() {
						if st, ok := r.(*ssa.Store); ok && st.Val == ins {
							if fa, ok := st.Addr.(*ssa.FieldAddr); ok && p.specs.Owned[fieldName(fa)] {
								owned = true
							}
						}
					}
					if owned {
						for _, r := range *ins.Referrers() {
							switch r := r.(type) {
							case *ssa.Store, *ssa.DebugRef, *ssa.MapUpdate:
								_ = r
							default:
								add(fmt.Sprintf("%s: map made for an owned field is also used elsewhere (%T)", fn.String(), r))
							}
						}
					}
				}
			}
		}
		for _, af := range fn.AnonFuncs {
			visit(af)
		}
	}
	for _, sp := range p.byName {
		for _, m := range sp.Members {
			switch m := m.(type) {
			case *ssa.Function:
				visit(m)
			case *ssa.Type:
				for _, t := range []types.Type{m.Type(), types.NewPointer(m.Type())} {
					ms := p.prog.MethodSets.MethodSet(t)
					for i := 0; i < ms.Len(); i++ {
						if f := p.prog.MethodValue(ms.At(i)); f != nil {
							visit(f)
						}
					}
				}
			}
		}
	}
	return out
}
