#!/bin/bash
# Runs every registered quick check once, sequentially, on /repo; prints exit status and wall time per property.
cd /verif
for p in $(python3 -c "import json;print(' '.join(c['property_id'] for c in json.load(open('MANIFEST.json'))['checks']))"); do
  s=$(date +%s)
  bin/evyvc check --prop $p --tier quick > /tmp/runall.$p.out 2>&1
  rc=$?
  e=$(date +%s)
  echo "$p exit=$rc $((e-s))s $(grep -c '^VIOLATION' /tmp/runall.$p.out) violations $(grep -c '^KNOWN-FINDING' /tmp/runall.$p.out) known  | $(tail -1 /tmp/runall.$p.out | cut -c1-120)"
done
