#!/usr/bin/env python3
"""Generates /verif/MANIFEST.json from the claims table below (kept valid at all times)."""
import json, subprocess, os
V = "/verif"
props = [json.loads(l) for l in open(f"{V}/properties.jsonl")]
claims = json.load(open(f"{V}/tools/claims.json"))
hooks = subprocess.run(["git", "-C", "/repo", "log", "--format=%H %s"], capture_output=True, text=True).stdout.splitlines()
hook_commits = [l.split()[0] for l in hooks if l.split(" ", 1)[1].startswith("verif hook")]
checks = []
na = []
for p in props:
    pid = p["id"]
    c = claims.get(pid)
    if not c or not c.get("claimed"):
        na.append({"property_id": pid, "reason": (c or {}).get("reason", "not yet under contract in this round; see DESIGN.md section 6 for the plan")})
        continue
    checks.append({
        "property_id": pid,
        "quick_cmd": f"bin/evyvc check --prop {pid} --tier quick",
        "thorough_cmd": f"bin/evyvc check --prop {pid} --tier thorough",
        "evidence_file": f"/verif/evidence/{pid}.json",
        "replay_cmd_template": "bin/evyvc replay {path}",
        "engine": "evyvc",
        "level_claimed": {"category": "proof", "text": c["text"], "design_ref": c.get("design_ref", "DESIGN.md section 6")},
        "level_note": c["note"],
        "technique": "contract-based deductive verification: weakest-precondition style VCs generated from go/ssa of the real code against contracts in contracts_verif.go, discharged by z3/cvc5",
    })
m = {
    "version": 1,
    "setup_cmd": "cd /verif/engine && GOFLAGS=-mod=mod GOPROXY=off GOSUMDB=off GOTOOLCHAIN=local go build -o /verif/bin/evyvc .",
    "hooks": {
        "guard": "verif",
        "enable": "go build tag: -tags verif (contract files are comment-only Go files guarded by //go:build verif; evyvc loads /repo with -tags=verif)",
        "baseline_off_cmd": "for m in . learn; do (cd /repo/$m && GOFLAGS=-mod=mod GOPROXY=off GOSUMDB=off go test -json -vet=off -count=1 -timeout 25m ./...); done",
        "source_commits": hook_commits,
        "add_only": True,
    },
    "engines": [{"name": "evyvc", "path": "/verif/engine", "serves_properties": [c["property_id"] for c in checks],
                 "kind_free_text": "self-written verification-condition generator for Go (go/packages + go/ssa symbolic execution, Burstall-Bornat heap, Gobra-style contracts in //@ comments) with z3 4.8.12, z3 5.1.0 and cvc5 1.0 as back ends"}],
    "checks": checks,
    "not_applicable": na,
    "notes": "Contracts live in /repo/pkg/*/contracts_verif.go (tag verif, comment-only). KNOWN_FINDINGS.txt lists genuine defects recorded rather than repaired; obligations.lock lists the obligations that must be generated and discharged.",
}
json.dump(m, open(f"{V}/MANIFEST.json", "w"), indent=1)
print("checks:", [c["property_id"] for c in checks], "na:", len(na))
