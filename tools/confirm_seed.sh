#!/bin/bash
# confirm_seed.sh <worktree> <seed-dir> <out-id>: independently confirms a seeded change:
#  (1) demo passes on the clean tree, (2) full suite passes with the change, (3) demo fails with the change.
# On success copies patch.diff, demo_test.go, meta.json to /verif/seeded/<out-id>/ with the confirmation log.
export GOFLAGS=-mod=mod GOPROXY=off GOSUMDB=off GOTOOLCHAIN=local
WT=$1; SD=$2; ID=$3
cd $WT || exit 2
git checkout -q -- . ; git clean -fdq -e seeds
PKG=$(grep -m1 '^package ' $SD/demo_test.go | awk '{print $2}')
case $PKG in
  evaluator) DIR=pkg/evaluator;; parser) DIR=pkg/parser;; lexer) DIR=pkg/lexer;; bytecode) DIR=pkg/bytecode;; main) DIR=.;; svg) DIR=pkg/cli/svg;; cli) DIR=pkg/cli;; learn) DIR=learn/pkg/learn;; *) DIR=pkg/$PKG;;
esac
LOG=$(mktemp)
run_demo() { cp $SD/demo_test.go $DIR/zz_demo_seed_test.go; (cd $WT/$( [[ $DIR == learn/* ]] && echo learn || echo . ) && go test -vet=off -count=1 ./${DIR#learn/} 2>&1 | tail -15); R=${PIPESTATUS[0]}; rm -f $DIR/zz_demo_seed_test.go; }
echo "== demo on clean tree" >> $LOG; OUT=$(run_demo); echo "$OUT" >> $LOG
if ! echo "$OUT" | grep -q "^ok"; then echo "REJECT $ID: demo fails on clean tree"; cat $LOG | tail -20; exit 1; fi
git apply $SD/patch.diff || { echo "REJECT $ID: patch does not apply"; exit 1; }
echo "== suite with change" >> $LOG
S1=$(go test -vet=off -count=1 $(go list ./... | grep -v /seeds) 2>&1 | grep -v "^ok\|no test files" | tail -20)
S2=$(cd learn && go test -vet=off -count=1 ./... 2>&1 | grep -v "^ok\|no test files" | tail -20)
echo "$S1$S2" >> $LOG
if [ -n "$S1$S2" ]; then echo "REJECT $ID: suite fails with the change"; echo "$S1$S2" | tail; git checkout -q -- .; exit 1; fi
echo "== demo with change" >> $LOG; OUT=$(run_demo); echo "$OUT" >> $LOG
git checkout -q -- . ; git clean -fdq -e seeds
if echo "$OUT" | grep -q "^ok"; then echo "REJECT $ID: demo passes with the change"; exit 1; fi
mkdir -p /verif/seeded/$ID; cp $SD/patch.diff $SD/demo_test.go /verif/seeded/$ID/; 
python3 - "$SD/meta.json" "/verif/seeded/$ID/meta.json" "$ID" <<'PY'
import json,sys
m=json.load(open(sys.argv[1])); m["id"]=sys.argv[3]
m["confirmed_by_builder"]="tools/confirm_seed.sh: demo passes on clean tree; full suites of both modules pass with the change; demo fails with the change"
json.dump(m,open(sys.argv[2],"w"),indent=1)
PY
cp $LOG /verif/seeded/$ID/confirm.log; echo "CONFIRMED $ID"
