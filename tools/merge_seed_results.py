#!/usr/bin/env python3
"""Merges the per-run seed results under /verif/work (gitignored) into the committed selftest/results/seed_results.json
(newest result per seed wins). Arguments: result files to merge, oldest first."""
import json, sys
V = "/verif"
agg = f"{V}/selftest/results/seed_results.json"
res = {sid: rs for sid, rs in json.load(open(agg))}
for f in sys.argv[1:]:
    for sid, rs in json.load(open(f)):
        res[sid] = rs
json.dump(sorted(res.items()), open(agg, "w"), indent=1)
print(len(res), "seeds;", sum(1 for rs in res.values() if all(r[1] for r in rs)), "detected")
