#!/usr/bin/env python3
"""Rewrites the generated blocks of DESIGN.md (coverage per property, seeded changes) from the evidence files
and the seed-run results under /verif/work."""
import json, glob, os, re
V = "/verif"
man = json.load(open(f"{V}/MANIFEST.json"))
claims = json.load(open(f"{V}/tools/claims.json"))
rows = ["| property | functions under contract | obligations (instances over paths) | discharged | known findings | assumed/trusted items | quick wall time |",
        "|---|---|---|---|---|---|---|"]
for c in man["checks"]:
    pid = c["property_id"]
    try:
        e = json.load(open(f"{V}/evidence/{pid}.json"))
    except Exception:
        rows.append(f"| {pid} | (no evidence file) | | | | | |")
        continue
    cov = e["coverage"]
    rows.append(f"| {pid} | {len(cov['functions_under_contract'])} | {cov['obligations']} ({cov['obligation_instances']}) | {cov['discharged']} | {cov['known_findings']} | {len(e.get('assumptions', []))} | {e['wall_s']:.0f} s |")
for n in man["not_applicable"]:
    rows.append(f"| {n['property_id']} | not applicable | | | | | |")
status = "\n".join(rows)

# seeds: newest result per seed id
res = {}
for f in [f"{V}/selftest/results/seed_results.json"] + sorted(glob.glob(f"{V}/work/seed_results*.json"), key=os.path.getmtime):
    if not os.path.exists(f):
        continue
    for sid, rs in json.load(open(f)):
        res[sid] = rs
srows = ["| seeded change | what it breaks | check | result | first failing obligation(s) |", "|---|---|---|---|---|"]
for d in sorted(glob.glob(f"{V}/seeded/*/")):
    sid = os.path.basename(d.rstrip("/"))
    try:
        what = json.load(open(d + "meta.json")).get("what", "")
    except Exception:
        what = ""
    what = what.replace("|", "\\|").replace("\n", " ")
    if len(what) > 160:
        what = what[:157] + "..."
    rs = res.get(sid)
    pid = sid.split("-")[0]
    if not rs:
        claimed = any(c["property_id"] == pid for c in man["checks"])
        srows.append(f"| {sid} | {what} | {pid} | {'not run' if claimed else 'no check claimed for ' + pid} | |")
        continue
    for r in rs:
        p, det, obls = r[0], r[1], r[2]
        names = ", ".join(f"`{o}`" for o in obls[:2])
        srows.append(f"| {sid} | {what} | {p} | {'DETECTED' if det else 'missed'} | {names} |")
seeds = "\n".join(srows)

s = open(f"{V}/DESIGN.md").read()
s = re.sub(r"<!-- BEGIN GENERATED STATUS -->.*?<!-- END GENERATED STATUS -->", "<!-- BEGIN GENERATED STATUS -->\n" + status.replace("\\", "\\\\") + "\n<!-- END GENERATED STATUS -->", s, flags=re.S)
s = re.sub(r"<!-- BEGIN GENERATED SEEDS -->.*?<!-- END GENERATED SEEDS -->", "<!-- BEGIN GENERATED SEEDS -->\n" + seeds.replace("\\", "\\\\") + "\n<!-- END GENERATED SEEDS -->", s, flags=re.S)
open(f"{V}/DESIGN.md", "w").write(s)
print("status rows:", len(rows) - 2, "seed rows:", len(srows) - 2)
