#!/bin/bash
# Regenerates /verif/obligations.lock (the names every check must generate) and the evidence files by running
# every claimed check once on /repo. Run after contract or engine changes, on an unchanged tree only.
cd /verif
: > /tmp/lock.new
for p in $(python3 -c "import json;print(' '.join(c['property_id'] for c in json.load(open('MANIFEST.json'))['checks']))"); do
  echo "== $p" >&2
  bin/evyvc check --prop $p --write-lock > /tmp/lock.$p.out 2> /tmp/lock.$p.err
  echo "exit=$? $(tail -1 /tmp/lock.$p.err)" >&2
  grep "^$p " /tmp/lock.$p.out >> /tmp/lock.new
done
sort -u /tmp/lock.new > obligations.lock
wc -l obligations.lock >&2
