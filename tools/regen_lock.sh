#!/bin/bash
# Regenerates /verif/obligations.lock (the names every check must generate) by running the claimed checks with
# --write-lock on /repo. With arguments: only those properties (the other properties' lines are kept).
# Run after contract or engine changes, on an unchanged tree only.
cd /verif
props="$*"
all=$(python3 -c "import json;print(' '.join(c['property_id'] for c in json.load(open('MANIFEST.json'))['checks']))")
[ -z "$props" ] && props="$all"
cp obligations.lock /tmp/lock.keep
for p in $props; do
  echo "== $p" >&2
  bin/evyvc check --prop $p --write-lock > /tmp/lock.$p.out 2> /tmp/lock.$p.err
  echo "exit=$? $(tail -1 /tmp/lock.$p.err)" >&2
  grep -v "^$p " /tmp/lock.keep > /tmp/lock.keep2; mv /tmp/lock.keep2 /tmp/lock.keep
  grep "^$p " /tmp/lock.$p.out >> /tmp/lock.keep
done
sort -u /tmp/lock.keep > obligations.lock
wc -l obligations.lock >&2
