#!/usr/bin/env python3
"""Runs the quick checks against every confirmed seeded change in /verif/seeded/<id>/ (applied to /repo, always undone)."""
import json, subprocess, sys, os, time, glob
V = "/verif"
only = sys.argv[1:]
# the seeded changes are applied to a scratch worktree of /repo (never to /repo itself) and the checks are
# pointed at it with EVYVC_REPO; outputs go to a scratch directory
R = "/tmp/repo-seed"
OUT = "/tmp/seed-out"
subprocess.run(["git", "-C", "/repo", "worktree", "remove", "--force", R], capture_output=True)
subprocess.run(["git", "-C", "/repo", "worktree", "add", "--detach", R, "HEAD"], capture_output=True, check=True)
env = dict(os.environ, EVYVC_REPO=R, EVYVC_OUT=OUT, EVYVC_FAST="1")
rows = []
for d in sorted(glob.glob(f"{V}/seeded/*/")):
    sid = os.path.basename(d.rstrip("/"))
    if only and not any(o in sid for o in only):
        continue
    meta = json.load(open(d + "meta.json"))
    props = [meta["property"]] + meta.get("also_check", [])
    st = subprocess.run(["git", "-C", R, "status", "--short"], capture_output=True, text=True).stdout
    if st.strip():
        print("ERROR: /repo dirty before applying", sid, st); sys.exit(2)
    a = subprocess.run(["git", "-C", R, "apply", d + "patch.diff"], capture_output=True, text=True)
    if a.returncode != 0:
        print(sid, "PATCH DOES NOT APPLY", a.stderr[:200]); continue
    try:
        det = []
        for p in props:
            t0 = time.time()
            r = subprocess.run([f"{V}/bin/evyvc", "check", "--prop", p], cwd=V, capture_output=True, text=True, env=env)
            fails = [l.split(" [")[0].replace("failed obligation: ", "") for l in r.stdout.splitlines() if l.startswith("failed obligation")]
            ok = r.returncode == 1 and "VIOLATION" in r.stdout
            det.append((p, ok, fails[:4], round(time.time() - t0)))
            print(f"{sid} {p}: {'DETECTED' if ok else 'MISSED exit=%d' % r.returncode} {round(time.time()-t0)}s {fails[:4]}", flush=True)
        rows.append((sid, det))
    finally:
        subprocess.run(["git", "-C", R, "checkout", "--", "."])
os.makedirs(f"{V}/work", exist_ok=True)
json.dump(rows, open(f"{V}/work/seed_results_{'_'.join(only) or 'all'}.json", "w"), indent=1)
subprocess.run(["git", "-C", "/repo", "worktree", "remove", "--force", R], capture_output=True)
