#!/usr/bin/env python3
"""Must-fail selftest: applies each deliberate property-breaking edit to a scratch worktree of /repo under /tmp
(never to /repo itself), points the engine at it (EVYVC_REPO, EVYVC_OUT), runs the quick check of the properties it
should break and expects exit 1 with a VIOLATION line. The worktree is removed at the end."""
import json, subprocess, sys, os, time
V = "/verif"
muts = json.load(open(f"{V}/selftest/mutants.json"))
R = "/tmp/repo-mut"
subprocess.run(["git", "-C", "/repo", "worktree", "remove", "--force", R], capture_output=True)
subprocess.run(["git", "-C", "/repo", "worktree", "add", "--detach", R, "HEAD"], capture_output=True, check=True)
ENV = dict(os.environ, EVYVC_REPO=R, EVYVC_OUT="/tmp/mut-out", EVYVC_FAST="1")
only = sys.argv[1:]
res = []
for m in muts:
    if only and not any(o in m["id"] or o in m["props"] for o in only):
        continue
    path = R + "/" + m["file"]
    src = open(path).read()
    if src.count(m["old"]) != 1:
        print(f"{m['id']}: SKIP (pattern occurs {src.count(m['old'])} times)")
        res.append((m["id"], "skip"))
        continue
    try:
        open(path, "w").write(src.replace(m["old"], m["new"]))
        b = subprocess.run(["go", "build", "./..."], cwd=R, capture_output=True, text=True,
                           env=dict(os.environ, GOFLAGS="-mod=mod", GOPROXY="off", GOSUMDB="off", GOTOOLCHAIN="local"))
        if b.returncode != 0:
            print(f"{m['id']}: SKIP (does not compile) {b.stderr[:200]}")
            res.append((m["id"], "nocompile"))
            continue
        for p in m["props"]:
            if only and p not in only and not any(o in m["id"] for o in only):
                continue
            t0 = time.time()
            r = subprocess.run([f"{V}/bin/evyvc", "check", "--prop", p], cwd=V, capture_output=True, text=True, env=ENV)
            det = r.returncode == 1 and "VIOLATION" in r.stdout
            fails = [l for l in r.stdout.splitlines() if l.startswith("failed obligation")]
            print(f"{m['id']} {p}: {'DETECTED' if det else 'MISSED (exit %d)' % r.returncode} {time.time()-t0:.0f}s  {fails[:3]}")
            if not det:
                print(r.stdout[-500:], r.stderr[-500:])
            res.append((m["id"] + ":" + p, "detected" if det else "missed"))
    finally:
        open(path, "w").write(src)
subprocess.run(["git", "-C", "/repo", "worktree", "remove", "--force", R], capture_output=True)
subprocess.run(["rm", "-rf", "/tmp/mut-out"])
json.dump(res, open(f"{V}/work/mutant_results.json", "w"), indent=1)
missed = [r for r in res if r[1] == "missed"]
print(f"{len(res)} runs, {len(missed)} missed: {missed}")
st = subprocess.run(["git", "-C", "/repo", "status", "--short"], capture_output=True, text=True).stdout
if st.strip():
    print("WARNING: /repo dirty:", st)
